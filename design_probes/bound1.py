import sys; sys.path.insert(0,'/tmp/explore')
from probe2 import *
def bound(sc, Lo=8, Lt=4):
    M=sc['machines']; mincpu=min(m['flops'] for m in M.values()); minbw=min(m['compute_bandwidth'] for m in M.values())
    minrate=min(sc['hot']['max_ingest_rate'],sc['cold']['max_data_rate'])
    B=max(math.ceil(o['start']) for o in sc['obs']); parts=[B]
    for i,o in enumerate(sc['obs']):
        vol=o['duration']*o['data_product_rate']
        B+=o['duration']+2*math.ceil(vol/minrate)+Lo
        nodes,edges=sc['wfs'][i]
        for n,(c,dta) in nodes.items():
            rt=max(1,int(c/mincpu),int(dta/minbw))
            inv=[v for (u,w,v) in edges if w==n]
            B+=rt+(math.ceil(max(inv)/minbw) if inv else 0)+Lt
    return B
N=int(sys.argv[1]); worst=[]
d=tempfile.mkdtemp(dir='/tmp/explore/rx')
for sd in range(N):
    rng=random.Random(sd); sc=gen(rng)
    r,sim,df,tasks=runsc(sc,d)
    if r=='ok':
        B=bound(sc); T=sim.env.now
        # tight bound with Lo=Lt=0
        B0=bound(sc,0,0)
        worst.append((T/B, T, B, B0, sd, sc['alg']))
shutil.rmtree(d)
worst.sort(reverse=True)
print(worst[:8]); print('max T/B0',max(w[1]/w[3] for w in worst), 'n',len(worst))
need=[ (w[1]-w[3]) for w in worst]; print('max T-B0', max(need))
