import networkx as nx
class _M:
    def __init__(self,id): self.id=id
class _A:
    def __init__(self,ast,aft,m): self.ast=ast; self.aft=aft; self.machine=_M(m)
class _S: pass
def _plan(wf, choose):
    ms=wf.env.machines; free={m:0 for m in ms}; alloc={}
    for t in nx.topological_sort(wf.graph):
        m=choose(t,list(ms)); dur=max(1,int(t.flops_demand/ms[m]['flops']))
        ready=max([alloc[p].aft for p in wf.graph.predecessors(t)]+[0])
        st=max(ready,free[m]); alloc[t]=_A(st,st+dur,m); free[m]=st+dur
    s=_S(); s.task_allocations=alloc; s.makespan=max(a.aft for a in alloc.values())
    s.execution_order=[t.tid for t in sorted(alloc,key=lambda t:alloc[t].ast)]
    return s
def heft(wf): return _plan(wf, lambda t,ms: ms[hash(str(t.tid))%len(ms)] if False else ms[t.tid%len(ms)])
pheft=fcfs=heft
