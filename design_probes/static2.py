import sys; sys.path.insert(0,'/tmp/explore/fakes'); sys.path.insert(0,'/tmp/explore')
import probe2, probe3
from probe3 import *
from topsim.user.plan.static_planning import SHADOWPlanning
from topsim.user.schedule.dynamic_plan import DynamicSchedulingFromPlan
from topsim.user.schedule.greedy import GreedySchedulingFromPlan
import shadow.algorithms.heuristic as H
import hashlib
def runst(sc,d,algname,pseed):
    for i,(n,e) in enumerate(sc['wfs']): mkwf(f'{d}/wf{i}.json', n, e)
    mkcfg(f'{d}/cfg.json', sc['machines'], sc['obs'], sc['pipes'], sc['arrays'], sc['max_ingest'], sc['hot'], sc['cold'])
    prng=random.Random(pseed)
    H.heft=lambda wf: H._plan(wf, lambda t,ms: prng.choice(sorted(ms)))
    import topsim.user.plan.static_planning as sp; sp.heft=H.heft
    env=HEnv(); alg=DynamicSchedulingFromPlan() if algname=='dyn' else GreedySchedulingFromPlan()
    sim=Simulation(env,f'{d}/cfg.json',Telescope,planning_model=SHADOWPlanning('heft'),planning_algorithm='heft',scheduling=alg,delay=None,timestamp=0); env.sim=sim
    try: sim.start(); return 'ok',sim
    except Budget: return 'stuck',sim
    except Exception as e:
        c=e.__cause__ or e; tb=traceback.extract_tb(c.__traceback__)[-1]
        return 'exc %s@%s:%d'%(type(e).__name__,tb.name,tb.lineno),sim
N=int(sys.argv[1]); algname=sys.argv[2]; res=collections.Counter(); viol=collections.Counter(); c17=collections.Counter(); digs=[]
d=tempfile.mkdtemp(dir='/tmp/explore/rx')
for sd in range(N):
    sc=gen(random.Random(sd)); r,sim=runst(sc,d,algname,sd); res[r]+=1
    for k,v in sim.env.viol.items(): viol[k.split(' used')[0]]+=v
    if r=='ok':
        planned={}
        for rec in sim.env.log:
            if rec['name']=='do_work':
                t=rec['loc']['self']
                if 'ingest' in t.id: continue
                am=t.allocated_machine_id; am=am if isinstance(am,str) else am.id
                c17['same' if am==rec['loc']['machine'].id else 'diff']+=1
        digs.append(hashlib.sha1(sim._generate_final_task_data().drop(columns=['config','planning','scheduling']).to_csv().encode()).hexdigest()[:8])
shutil.rmtree(d); print(res); print('viol',viol); print(c17); print(hashlib.sha1(''.join(digs).encode()).hexdigest()[:12])
