import sys,os; os.environ['TQDM_DISABLE']='1'
sys.path.insert(0,'/tmp/explore')
import warnings; warnings.filterwarnings('ignore')
from mk import *
import simpy
from topsim.core.config import Config
from topsim.core.cluster import Cluster
from topsim.core.task import Task
from topsim.core.instrument import Observation
M={f"m{i}":{"flops":10,"compute_bandwidth":5} for i in range(3)}
mkwf('/tmp/explore/wf.json', {0:(20,0)}, [])
mkcfg('/tmp/explore/cfg.json', M, [{"name":"a","start":0,"duration":3,"instrument_demand":1,"data_product_rate":1}], {"a":{"workflow":"wf.json","ingest_demand":1}},1,1,{"capacity":100,"max_ingest_rate":10},{"capacity":100,"max_data_rate":10})
def fresh():
    env=simpy.Environment(); c=Cluster(env,Config('/tmp/explore/cfg.json')); env.process(c.run()); return env,c
def pools(c):
    r=c._resources; return (sorted(m.id for m in r['available']),sorted(m.id for m in r['ingest']),sorted(m.id for m in r['occupied']),{k:sorted(m.id for m in v) for k,v in r['idle'].items()},dict(c._usage_data),c.num_provisioned_obs, len(c._tasks['running']))
def T(n,d=2): t=Task(n,0,d,None,[]); return t
obs=Observation('a',0,4,1,'wf.json',1)
def attempt(label, f):
    env,c=fresh()
    try:
        f(env,c); print(label,'->',pools(c),'idle?',c.is_idle())
    except Exception as e:
        print(label,'-> EXC',type(e).__name__,e, pools(c))
# 1 alloc on ingest machine
def s1(env,c):
    env.process(c.provision_ingest_resources(1,obs)); env.run(until=1); print('  after ingest',pools(c))
    m=c._resources['ingest'][0]; env.process(c.allocate_task_to_cluster(T('x'),m)); env.run(until=2); print('  after alloc on ingest m',pools(c)); env.run(until=8)
attempt('alloc on ingest machine',s1)
def s2(env,c):
    c.provision_batch_resources(2,'a'); m=c._resources['idle']['a'][0]
    env.process(c.allocate_task_to_cluster(T('x'),m,observation='b')); env.run(until=2)
attempt('alloc on foreign-reserved machine',s2)
def s3(env,c):
    c.provision_batch_resources(2,'a'); c.provision_batch_resources(1,'a'); print('  double prov',pools(c)); c.release_batch_resources('a')
attempt('double provision then release',s3)
def s4(env,c):
    c.provision_batch_resources(3,'a'); print('  prov all',pools(c));
    try: c.provision_batch_resources(1,'b')
    except Exception as e: print('  prov on empty EXC',type(e).__name__,e)
    print('  after',pools(c))
attempt('provision on empty pool',s4)
def s5(env,c):
    c.provision_batch_resources(1,'a'); m=c._resources['idle']['a'][0]
    env.process(c.allocate_task_to_cluster(T('x',5),m,observation='a')); env.run(until=1); print('  busy reserved',pools(c))
    c.release_batch_resources('a'); print('  released while busy',pools(c)); env.run(until=10); print('  later',pools(c)); c.release_batch_resources('a')
attempt('release while reserved machine busy',s5)
def s6(env,c):
    c.provision_batch_resources(0,'a')
attempt('provision size 0',s6)
def s7(env,c):
    c.release_batch_resources('zzz')
attempt('release unknown',s7)
def s8(env,c):
    m=c.machines[0]; env.process(c.allocate_task_to_cluster(T('x',4),m)); env.run(until=1); print('  running',pools(c),'is_idle',c.is_idle()); env.run(until=10)
attempt('plain alloc, is_idle while running',s8)
