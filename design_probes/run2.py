import sys, logging, json
sys.path.insert(0,'/tmp/explore')
from mk import *
import simpy, pandas as pd
from topsim.core.simulation import Simulation
from topsim.user.telescope import Telescope
from topsim.user.plan.batch_planning import BatchPlanning
from topsim.user.schedule.batch_allocation import BatchProcessing
from topsim.user.schedule.queue_allocation import QueueProcessing
import tqdm
def run(name, machines, obs, pipes, arrays, max_ingest, hot, cold, sched, wf, maxsteps=300, timestep=None, show=True):
    mkwf('/tmp/explore/wf.json', *wf)
    mkcfg('/tmp/explore/cfg.json', machines, obs, pipes, arrays, max_ingest, hot, cold, timestep)
    env=simpy.Environment()
    sim=Simulation(env,'/tmp/explore/cfg.json',Telescope,planning_model=BatchPlanning('batch'),planning_algorithm='batch',scheduling=sched,delay=None,timestamp=0)
    print("=====",name)
    try:
        sim.start(runtime=1)
        while not sim.is_finished() and env.now<maxsteps:
            sim.resume(env.now+1)
        print("finished" if sim.is_finished() else "NOT FINISHED", "at", env.now)
    except Exception as e:
        import traceback; traceback.print_exc()
    pd.set_option('display.width',250); pd.set_option('display.max_columns',50); pd.set_option('display.max_rows',500)
    if show:
        df=sim.monitor.df
        print(df[['available_resources','ingest_resources','running_tasks','finished_tasks','provisioned_observations','hot_buffer','cold_buffer','stored','observations_waiting','observations_finished','scheduler_observation_queue']].head(60))
        print(sim.monitor.events)
        print(sim._generate_final_task_data().drop(columns=['config','planning','scheduling']))
    return sim
WF=({0:(20,0),1:(30,0)},[(0,1,5)])
M={f"m{i}":{"flops":10,"compute_bandwidth":5} for i in range(3)}
if __name__=='__main__':
    which=sys.argv[1]
    if which=='big':
        run('single obs 70% of hot', M, [{"name":"a","start":0,"duration":7,"instrument_demand":1,"data_product_rate":10}],
            {"a":{"workflow":"wf.json","ingest_demand":1}},1,1,{"capacity":100,"max_ingest_rate":10},{"capacity":100,"max_data_rate":10}, QueueProcessing(), WF, maxsteps=60)
    if which=='overlap':
        run('two overlapping 60%', M, [{"name":"a","start":0,"duration":6,"instrument_demand":1,"data_product_rate":10},{"name":"b","start":1,"duration":6,"instrument_demand":1,"data_product_rate":10}],
            {"a":{"workflow":"wf.json","ingest_demand":1},"b":{"workflow":"wf.json","ingest_demand":1}},2,2,{"capacity":100,"max_ingest_rate":10},{"capacity":100,"max_data_rate":10}, QueueProcessing(), WF, maxsteps=60)
    if which=='simul':
        run('two simultaneous, 3 avail', M, [{"name":"a","start":0,"duration":3,"instrument_demand":1,"data_product_rate":1},{"name":"b","start":0,"duration":3,"instrument_demand":1,"data_product_rate":1}],
            {"a":{"workflow":"wf.json","ingest_demand":2},"b":{"workflow":"wf.json","ingest_demand":2}},2,4,{"capacity":100,"max_ingest_rate":10},{"capacity":100,"max_data_rate":10}, QueueProcessing(), WF, maxsteps=60)
