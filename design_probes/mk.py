import json, networkx as nx, sys
def mkwf(path, nodes, edges):
    g = nx.DiGraph()
    for n,(comp,data) in nodes.items():
        g.add_node(n, comp=comp, task_data=data)
    for (u,v,d) in edges:
        g.add_edge(u,v,transfer_data=d)
    json.dump({"header":{"time":False},"graph":nx.node_link_data(g)}, open(path,'w'), indent=1)
def mkcfg(path, machines, obs, pipelines, total_arrays, max_ingest, hot, cold, timestep=None):
    cfg = {"instrument":{"telescope":{"total_arrays":total_arrays,"max_ingest_resources":max_ingest,
            "pipelines":pipelines,"observations":obs}},
           "cluster":{"header":{},"system":{"resources":machines,"system_bandwidth":1.0}},
           "buffer":{"hot":hot,"cold":cold}}
    if timestep: cfg["timestep"]=timestep
    json.dump(cfg, open(path,'w'), indent=1)
