import sys, os, json, random, traceback, collections, tempfile, shutil, math
os.environ['TQDM_DISABLE']='1'
import warnings; warnings.filterwarnings('ignore')
sys.path.insert(0,'/tmp/explore/fakes'); sys.path.insert(0,'/tmp/explore')
from mk import mkwf, mkcfg
import simpy, pandas as pd
from simpy.events import Process
from topsim.core.simulation import Simulation
from topsim.core.monitor import Monitor
from topsim.user.telescope import Telescope
from topsim.user.plan.batch_planning import BatchPlanning
from topsim.user.schedule.batch_allocation import BatchProcessing
from topsim.user.schedule.queue_allocation import QueueProcessing
from rand1 import gen, Budget

class VEnv(simpy.Environment):
    limit=400
    def __init__(self):
        super().__init__(); self.log=[]; self.process=self._spawn; self.seq=0; self.sim=None; self.snaps={}; self.nextt=0
    def _spawn(self, gen):
        p=Process(self, gen); name=gen.gi_code.co_name; loc=gen.gi_frame.f_locals
        rec={'t':self.now,'seq':self.seq,'name':name,'loc':loc,'exit':None,'proc':p}
        self.log.append(rec)
        def cb(ev,rec=rec): rec['exit']=(self.now,self.seq,ev._ok)
        p.callbacks.append(cb)
        return p
    def snap(self):
        s=self.sim; c=s.cluster; b=s.buffer
        return dict(avail=[m.id for m in c._resources['available']], ingest=[m.id for m in c._resources['ingest']], occ=[m.id for m in c._resources['occupied']],
            idle={k:[m.id for m in v] for k,v in c._resources['idle'].items()}, running=len(c._tasks['running']), fin=sum(1 for v in c._tasks['finished'].values() if v),
            usage=dict(c._usage_data), hot=b.hot[0].current_capacity, cold=b.cold[0].current_capacity, hstored=len(b.hot[0].observations['stored']), cstored=len(b.cold[0].observations['stored']),
            status={o.name:o.status.value for o in s.instrument.observations}, queue=[o.name for o in s.scheduler.observation_queue], tuse=s.instrument.telescope_use, prov=s.scheduler.provision_ingest)
    def step(self):
        if self._queue:
            t=self._queue[0][0]
            if t>self.limit: raise Budget()
            while self.sim is not None and t>=self.nextt:
                self.snaps[self.nextt]=self.snap(); self.nextt+=1
        self.seq+=1
        super().step()

def runsc(sc, d, real_monitor=True):
    for i,(n,e) in enumerate(sc['wfs']): mkwf(f'{d}/wf{i}.json', n, e)
    mkcfg(f'{d}/cfg.json', sc['machines'], sc['obs'], sc['pipes'], sc['arrays'], sc['max_ingest'], sc['hot'], sc['cold'])
    env=VEnv()
    alg = BatchProcessing(**sc['ap']) if sc['alg']=='batch' else QueueProcessing()
    sim=Simulation(env,f'{d}/cfg.json',Telescope,planning_model=BatchPlanning('batch'),planning_algorithm='batch',scheduling=alg,delay=None,timestamp=0)
    env.sim=sim
    try:
        df,tasks=sim.start()
        return 'ok',sim,df,tasks
    except Budget: return 'stuck',sim,None,None
    except Exception as e: return 'exc '+type(e).__name__,sim,None,None

def analyse(sc,sim,df,tasks,issues):
    env=sim.env; M=sc['machines']
    execs={}; allocs={}
    for r in env.log:
        if r['name']=='do_work':
            t=r['loc']['self']; execs[t.id]=dict(task=t,machine=r['loc']['machine'].id,spawn=r['t'],exit=r['exit'])
        if r['name']=='allocate_task_to_cluster':
            t=r['loc']['task']; allocs[t.id]=dict(spawn=r['t'],exit=r['exit'],machine=r['loc']['machine'].id,ingest=r['loc']['ingest'],obs=r['loc']['observation'])
    # C03
    for i,(nodes,edges) in enumerate(sc['wfs']):
        name='o%d'%i
        ids={}
        for tid,e in execs.items():
            p=tid.split('_')
            if p[0]==name and p[1]!='ingest': ids[int(p[2])]=e
        for n in nodes:
            if n not in ids: issues['C04 missing exec']+=1; continue
            x=ids[n]; t=x['task']
            arr=[allocs[t.id]['spawn']]
            for (u,v,vol) in edges:
                if v!=n: continue
                p=ids[u]; 
                if t.ast < p['task'].aft-1e-9: issues['C03 start before pred aft']+=1
                if p['machine']!=x['machine']:
                    arr.append(p['task'].aft+vol/M[x['machine']]['compute_bandwidth'])
            if abs(t.ast-max(arr))>1e-9: issues['C03 ast!=max(alloc,arrivals) diff=%s'%(round(t.ast-max(arr),3))]+=1
            else: issues['C03 ok']+=1
            # C06
            n_=max(int(nodes[n][0]/M[x['machine']]['flops']), int(nodes[n][1]/M[x['machine']]['compute_bandwidth']))
            d=t.aft-t.ast
            if abs(d-max(1,n_))>1e-9: issues['C06 runtime n=%d got=%s'%(n_,round(d,3))]+=1
            else: issues['C06 ok']+=1
            rel=allocs[t.id]['exit'][0]
            issues['rel-aft n=%d: %s'%(min(n_,4), round(rel-t.aft,2))]+=1
    # ingest hold
    for o in sc['obs']:
        for tid,a in allocs.items():
            if a['ingest'] and tid.startswith(o['name']+'_ingest'):
                issues['ingest hold-dur d=%d: %d'%(min(o['duration'],4), a['exit'][0]-a['spawn']-o['duration'])]+=1
                t=execs[tid]['task']
                if t.aft-t.ast!=o['duration']: issues['C06 ingest dur']+=1
    # C12
    if df is not None:
        T=len(df)
        if T!=env.now: issues['C12 rows %d != T %d'%(T,env.now)]+=1
        for t in range(T):
            s=env.snaps[t]; row=df.iloc[t]
            nidle=sum(len(v) for v in s['idle'].values())
            chk={'available_resources':len(s['avail'])+nidle,'ingest_resources':len(s['ingest']),'running_tasks':s['running'],'finished_tasks':s['fin'],'provisioned_observations':len(s['idle']),
                 'hot_buffer':s['hot'],'cold_buffer':s['cold'],'stored':s['hstored']+s['cstored'],'observations_waiting':sum(1 for v in s['status'].values() if v=='WAITING'),
                 'observations_finished':sum(1 for v in s['status'].values() if v=='FINISHED'),'scheduler_observation_queue':len(s['queue'])}
            for k,v in chk.items():
                if row[k]!=v: issues['C12 col %s'%k]+=1
        issues['C12 rows checked']+=T
    # C13
    ev=sim.monitor.events
    for o in sc['obs']:
        e=ev[ev['observation']==o['name']] if len(ev) else ev
        def times(actor,res,evn): 
            if not len(e): return []
            return list(e[(e['actor']==actor)&(e['resource']==res)&(e['event']==evn)]['time'])
        got={k:times(*k) for k in [('instrument','telescope','started'),('instrument','telescope','finished'),('buffer','buffer','added'),('buffer','buffer','removed'),('scheduler','queue','added'),('scheduler','queue','removed'),('scheduler','allocation','started'),('scheduler','allocation','stopped')]}
        for k,v in got.items():
            if len(v)!=1: issues['C13 count %s=%d'%(k,len(v))]+=1
        st=got[('instrument','telescope','started')]; fi=got[('instrument','telescope','finished')]
        if st and fi and fi[0]-st[0]!=o['duration']: issues['C13 finished-started!=dur (%s)'%(fi[0]-st[0]-o['duration'])]+=1
        qa=got[('scheduler','queue','added')]; as_=got[('scheduler','allocation','started')]; ap=got[('scheduler','allocation','stopped')]; qr=got[('scheduler','queue','removed')]
        if st and qa and as_ and ap and qr:
            if not (st[0]<=qa[0]<=as_[0]<=ap[0]<=qr[0]): issues['C13 causal']+=1
            else: issues['C13 causal ok']+=1
    # C08
    started={}
    for t in sorted(env.snaps):
        s=env.snaps[t]
        for o in sc['obs']:
            if o['name'] not in started and s['status'][o['name']]!='WAITING': started[o['name']]=t-1
    for o in sc['obs']:
        if o['name'] not in started: continue
        t=started[o['name']]; s=env.snaps[t]
        ob=[x for x in sim.instrument.observations if x.name==o['name']][0]
        if ob.ast!=t: issues['C08 ast!=snapshot-derived start']+=1
        if t<o['start']: issues['C08 early']+=1
        same=[p for p in sc['obs'] if p['name']!=o['name'] and started.get(p['name'])==t and sc['obs'].index(p)<sc['obs'].index(o)]
        arr=sc['arrays']-s['tuse']-sum(p['instrument_demand'] for p in same)
        if arr<o['instrument_demand']: issues['C08 arrays']+=1
        dem=sc['pipes'][o['name']]['ingest_demand']
        if len(s['avail'])-sum(sc['pipes'][p['name']]['ingest_demand'] for p in same)<dem: issues['C08 avail (same-step=%d)'%len(same)]+=1
        if len(s['ingest'])+dem+sum(sc['pipes'][p['name']]['ingest_demand'] for p in same)>sc['max_ingest']: issues['C08 max_ingest']+=1
        vol=o['data_product_rate']*o['duration']
        if s['hot']<vol or s['cold']<vol: issues['C08 buffer room']+=1
        issues['C08 starts checked']+=1
        idle = not s['ingest'] and not s['occ'] and not s['idle'] and s['hot']==sc['hot']['capacity'] and s['cold']==sc['cold']['capacity'] and not s['queue'] and s['tuse']==0
        s0=env.snaps.get(o['start'])
        if s0:
            idle0 = not s0['ingest'] and not s0['occ'] and not s0['idle'] and s0['hot']==sc['hot']['capacity'] and s0['cold']==sc['cold']['capacity'] and not s0['queue'] and s0['tuse']==0 and s0['running']==0
            firstdue=all(not(p['start']<=o['start'] and s0['status'][p['name']]=='WAITING') for p in sc['obs'][:sc['obs'].index(o)])
            if idle0 and firstdue:
                if t!=o['start']: issues['C08 idle but late by %d'%(t-o['start'])]+=1
                else: issues['C08 idle on time']+=1
    for t,s in env.snaps.items():
        if s['tuse']>sc['arrays']: issues['C08 arrays exceeded']+=1
        if len(s['ingest'])>sc['max_ingest']: issues['C08 ingest exceeded']+=1
        if s['hot']<0: issues['C07 hot negative']+=1

if __name__=='__main__':
    N=int(sys.argv[1]); base=int(sys.argv[2]) if len(sys.argv)>2 else 0
    issues=collections.Counter(); res=collections.Counter()
    d=tempfile.mkdtemp(dir='/tmp/explore/rx')
    for sd in range(base,base+N):
        rng=random.Random(sd); sc=gen(rng)
        r,sim,df,tasks=runsc(sc,d); res[r]+=1
        if r=='ok':
            before=collections.Counter(issues)
            analyse(sc,sim,df,tasks,issues)
            new={k for k in issues if issues[k]!=before[k] and not k.endswith('ok') and 'checked' not in k and not k.startswith('rel-aft') and not k.startswith('ingest hold')}
            for k in new:
                if ('ex',k) not in res: res[('ex',k)]=sd
    shutil.rmtree(d)
    print(res)
    for k,v in sorted(issues.items()): print(v,k)
