import sys; sys.path.insert(0,'/tmp/explore')
from probe2 import *
def build(sc,d):
    for i,(n,e) in enumerate(sc['wfs']): mkwf(f'{d}/wf{i}.json', n, e)
    mkcfg(f'{d}/cfg.json', sc['machines'], sc['obs'], sc['pipes'], sc['arrays'], sc['max_ingest'], sc['hot'], sc['cold'])
    env=VEnv(); alg = BatchProcessing(**sc['ap']) if sc['alg']=='batch' else QueueProcessing()
    sim=Simulation(env,f'{d}/cfg.json',Telescope,planning_model=BatchPlanning('batch'),planning_algorithm='batch',scheduling=alg,delay=None,timestamp=0); env.sim=sim; return sim
def canon(df): return df.drop(columns=[c for c in df.columns if c.endswith('algtime')]).reset_index(drop=True)
d=tempfile.mkdtemp(dir='/tmp/explore/rx')
cnt=collections.Counter()
for sd in [0,1,2,3,5,6,7,9,10,11]:
    sc=gen(random.Random(sd)); sim=build(sc,d)
    try: df,tasks=sim.start()
    except Exception as e: continue
    T=sim.env.now; ev=sim.monitor.events.reset_index(drop=True)
    for k in range(1,T):
        s2=build(sc,d); s2.start(runtime=k); s2.resume(until=T); s2.monitor.collate_events()
        df2=s2.monitor.df; t2=s2._generate_final_task_data(); ev2=s2.monitor.events.reset_index(drop=True)
        a=canon(df).equals(canon(df2)); b=tasks.equals(t2); c=ev.equals(ev2); c2=ev.equals(ev2.drop_duplicates().reset_index(drop=True))
        cnt[(a,b,c,c2)]+=1
        if not c2 and ('ex' not in cnt): cnt['ex']=1; print(sd,k,T); print(ev); print(ev2)
shutil.rmtree(d); print(cnt)
