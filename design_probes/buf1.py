import sys,os; os.environ['TQDM_DISABLE']='1'
sys.path.insert(0,'/tmp/explore')
import warnings; warnings.filterwarnings('ignore')
from mk import *
import simpy
from topsim.core.config import Config
from topsim.core.cluster import Cluster
from topsim.core.buffer import Buffer
from topsim.core.instrument import Observation, RunStatus
M={f"m{i}":{"flops":10,"compute_bandwidth":5} for i in range(2)}
mkwf('/tmp/explore/wf.json', {0:(20,0)}, [])
def setup(hotcap,hotrate,coldcap,coldrate):
    mkcfg('/tmp/explore/cfg.json', M, [{"name":"a","start":0,"duration":3,"instrument_demand":1,"data_product_rate":1}], {"a":{"workflow":"wf.json","ingest_demand":1}},1,1,{"capacity":hotcap,"max_ingest_rate":hotrate},{"capacity":coldcap,"max_data_rate":coldrate})
    env=simpy.Environment(); cfg=Config('/tmp/explore/cfg.json'); c=Cluster(env,cfg); b=Buffer(env,c,None,cfg); return env,b
def st(b): return ('hot',b.hot[0].current_capacity,[o.name for o in b.hot[0].observations['stored']],b.hot[0].observations['transfer'] and b.hot[0].observations['transfer'].name,'cold',b.cold[0].current_capacity,[o.name for o in b.cold[0].observations['stored']],b.cold[0].observations['transfer'] and b.cold[0].observations['transfer'].name)
def scenario(label,hotcap,hotrate,coldcap,coldrate,size,dirs):
    print('==',label)
    env,b=setup(hotcap,hotrate,coldcap,coldrate)
    o=Observation('a',0,size,1,'wf.json',1); o.status=RunStatus.RUNNING
    p=env.process(b.ingest_data_stream(o)); env.run(until=size+1); print(' ingested',st(b),o.total_data_size)
    try:
        for d in dirs:
            t0=env.now
            p=env.process(b.move_hot_to_cold(0) if d=='hc' else b.move_cold_to_hot(0))
            while not p.triggered and env.now<t0+50:
                env.run(until=env.now+1); print('  t',env.now,st(b))
            print(' move',d,'took',env.now-t0,'ret',p.value if p.triggered else None)
    except Exception as e: print(' EXC',type(e).__name__,e,st(b))
scenario('cold slower',100,10,100,3,10,['hc','ch'])
scenario('hot slower',100,2,100,5,10,['hc','ch'])
scenario('no room in cold',100,10,5,3,10,['hc'])
