import sys,os
os.environ['TQDM_DISABLE']='1'
sys.path.insert(0,'/tmp/explore')
import warnings; warnings.filterwarnings('ignore')
from run2 import *
import hashlib
M2={"m0":{"flops":10,"compute_bandwidth":5},"m1":{"flops":20,"compute_bandwidth":5},"m2":{"flops":40,"compute_bandwidth":7}}
nodes={0:(40,0)}; edges=[]
for i in range(1,7):
    nodes[i]=(40*i,0); edges.append((0,i,3*i))
nodes[7]=(10,0)
for i in range(1,7): edges.append((i,7,2))
alg = BatchProcessing(min_resources_per_workflow=1) if sys.argv[1]=='batch' else QueueProcessing()
s=run('x', M2, [{"name":"a","start":0,"duration":3,"instrument_demand":1,"data_product_rate":1}],
        {"a":{"workflow":"wf.json","ingest_demand":1}},2,2,{"capacity":100,"max_ingest_rate":10},{"capacity":100,"max_data_rate":10}, alg, (nodes,edges), maxsteps=200, show=False)
td=s._generate_final_task_data().drop(columns=['config','planning','scheduling'])
print(hashlib.sha1(td.to_csv().encode()).hexdigest(), s.env.now)
