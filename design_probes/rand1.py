import sys, os, json, random, traceback, collections, tempfile, shutil
os.environ['TQDM_DISABLE']='1'
import warnings; warnings.filterwarnings('ignore')
sys.path.insert(0,'/tmp/explore')
from mk import mkwf, mkcfg
import simpy, pandas as pd
from topsim.core.simulation import Simulation
from topsim.core.monitor import Monitor
from topsim.user.telescope import Telescope
from topsim.user.plan.batch_planning import BatchPlanning
from topsim.user.schedule.batch_allocation import BatchProcessing
from topsim.user.schedule.queue_allocation import QueueProcessing
if os.environ.get('LIGHT','1')=='1': Monitor.collate_actor_dataframes = lambda self: pd.DataFrame()

class Budget(Exception): pass
class Env(simpy.Environment):
    limit=400
    def step(self):
        if self._queue and self._queue[0][0] > self.limit: raise Budget()
        super().step()

def gen(rng):
    nm = rng.randint(1,5)
    machines={f"m{i}":{"flops":rng.choice([5,10,20]),"compute_bandwidth":rng.choice([2,5,10])} for i in range(nm)}
    nobs=rng.randint(1,3)
    arrays=rng.randint(1,4)
    max_ingest=rng.randint(1,nm)
    hotcap=rng.choice([50,100,200]); coldcap=rng.choice([50,100,200])
    hotrate=rng.choice([5,10,20]); coldrate=rng.choice([3,5,10,20])
    obs=[];pipes={}
    t=0
    for i in range(nobs):
        name="o%d"%i
        start=rng.choice([t, t+rng.randint(0,3), rng.randint(0,15)])
        dur=rng.randint(1,8)
        rate=rng.randint(1,hotrate)
        # feasible: size < hotcap and <= coldcap
        while rate*dur >= hotcap or rate*dur>coldcap:
            if dur>1: dur-=1
            else: rate-=1
        obs.append({"name":name,"start":start,"duration":dur,"instrument_demand":rng.randint(1,arrays),"data_product_rate":rate})
        pipes[name]={"workflow":"wf%d.json"%i,"ingest_demand":rng.randint(1,max_ingest)}
        t=start+dur
    wfs=[]
    for i in range(nobs):
        n=rng.randint(1,6)
        nodes={k:(rng.choice([0,3,10,25,40,80]), rng.choice([0,0,0,4,30])) for k in range(n)}
        edges=[]
        for v in range(1,n):
            for u in range(v):
                if rng.random()<0.4: edges.append((u,v,rng.choice([0,1,7,20])))
        wfs.append((nodes,edges))
    alg=rng.choice(['batch','queue'])
    ap={}
    if alg=='batch':
        ap={'max_resource_partitions':rng.randint(1,2),'min_resources_per_workflow':rng.randint(1,max(1,nm//2))}
        if int(nm/ap['max_resource_partitions'])<ap['min_resources_per_workflow']:
            ap['max_resource_partitions']=1
    return dict(machines=machines,obs=obs,pipes=pipes,arrays=arrays,max_ingest=max_ingest,hot={"capacity":hotcap,"max_ingest_rate":hotrate},cold={"capacity":coldcap,"max_data_rate":coldrate},wfs=wfs,alg=alg,ap=ap)

def runsc(sc, d):
    for i,(n,e) in enumerate(sc['wfs']): mkwf(f'{d}/wf{i}.json', n, e)
    mkcfg(f'{d}/cfg.json', sc['machines'], sc['obs'], sc['pipes'], sc['arrays'], sc['max_ingest'], sc['hot'], sc['cold'])
    env=Env()
    alg = BatchProcessing(**sc['ap']) if sc['alg']=='batch' else QueueProcessing()
    sim=Simulation(env,f'{d}/cfg.json',Telescope,planning_model=BatchPlanning('batch'),planning_algorithm='batch',scheduling=alg,delay=None,timestamp=0)
    try:
        sim.start()
        # quiescence
        c=sim.cluster
        ok = len(c._resources['available'])==len(c.machines) and not c._resources['idle'] and not c._tasks['running']
        return ('ok' if ok else 'notquiescent', env.now, sim)
    except Budget:
        b=sim.buffer
        sig='STUCK cold_stored=%d hot_stored=%d hot_sched=%d queue=%d waiting=%d running=%d idle=%d'%(len(b.cold[0].observations['stored']),len(b.hot[0].observations['stored']),len(b.hot[0].observations['scheduled']),len(sim.scheduler.observation_queue),sim.instrument.observations_waiting(),len(sim.cluster._tasks['running']),len(sim.cluster._resources['idle']))
        return (sig, env.now, sim)
    except Exception as e:
        tb=traceback.extract_tb(e.__cause__.__traceback__ if e.__cause__ else e.__traceback__)
        fr=tb[-1]
        return ('EXC %s @%s:%s:%d %s'%(type(e).__name__, os.path.basename(fr.filename), fr.name, fr.lineno, str(e)[:60]), env.now, sim)

if __name__=='__main__':
    N=int(sys.argv[1]); base=int(sys.argv[2]) if len(sys.argv)>2 else 0
    cnt=collections.Counter(); ex={}
    d=tempfile.mkdtemp(dir='/tmp/explore/rx')
    for s in range(base,base+N):
        rng=random.Random(s)
        sc=gen(rng)
        r,now,sim=runsc(sc,d)
        key=r if not r.startswith('STUCK') else r
        cnt[key]+=1
        ex.setdefault(key,(s,now))
    shutil.rmtree(d)
    for k,v in cnt.most_common(): print(v,k,ex[k])
