import sys; sys.path.insert(0,'/tmp/explore')
import probe2
from probe2 import *
from topsim.algorithms.scheduling import Scheduling
import copy
# event-level hook: after each event check C09 + C07 ledger + C01
class HEnv(VEnv):
    def __init__(self): super().__init__(); self.viol=collections.Counter(); self.open={}; self.checked=0; self.adv=None
    def step(self):
        super().step()
        s=self.sim
        if s is None: return
        c=s.cluster; r=c._resources
        # partition
        ids=[m.id for m in r['available']]+[m.id for m in r['ingest']]+[m.id for m in r['occupied']]+[m.id for v in r['idle'].values() for m in v]
        if sorted(ids)!=sorted(m.id for m in c.machines): self.viol['C02 partition']+=1
        # open executions from log
        openm=collections.Counter()
        for rec in self.log:
            if rec['name']=='do_work' and not rec['proc'].triggered: openm[rec['loc']['machine'].id]+=1
        if any(v>1 for v in openm.values()): self.viol['C01 two open do_work']+=1
        for m in openm:
            if m not in [x.id for x in r['ingest']]+[x.id for x in r['occupied']]: self.viol['C01 exec on machine not in busy pool']+=1
        # C07 ledger: hot used == sum total_data_size of obs resident (RUNNING ingest, stored, scheduled, transfer partial ignored if no transfer)
        b=s.buffer; hot=b.hot[0]; cold=b.cold[0]
        if hot.observations['transfer'] is None and cold.observations['transfer'] is None:
            res_hot=sum(o.total_data_size for o in s.instrument.observations if (o.status.value=='RUNNING' and o not in hot.observations['stored'] and o not in hot.observations['scheduled'] and o not in cold.observations['stored'] and o not in hot.observations['finished']))
            res_hot+=sum(o.total_data_size for o in hot.observations['stored'])+sum(o.total_data_size for o in hot.observations['scheduled'])
            # obs status FINISHED but still stored/scheduled counted above via lists
            used=hot.total_capacity-hot.current_capacity
            if abs(used-res_hot)>1e-9: self.viol['C07 hot used %s != resident %s'%(used,res_hot)]+=1
            usedc=cold.total_capacity-cold.current_capacity
            if abs(usedc-sum(o.total_data_size for o in cold.observations['stored']))>1e-9: self.viol['C07 cold ledger']+=1
        if len(r['idle'])!=c.num_provisioned_obs: self.viol['C09 num_prov != |idle|']+=1
        self.checked+=1
probe2.VEnv=HEnv
def c09(sc,sim,issues):
    env=sim.env
    if sc['alg']!='batch': return
    ap=sc['ap']; Mn=len(sc['machines'])
    # reservation sizes: from snapshots (step-level)
    seen={}
    for t in sorted(env.snaps):
        s=env.snaps[t]
        if len(s['idle'])>ap['max_resource_partitions']: issues['C09 too many reservations']+=1
        for o,ms in s['idle'].items():
            if o not in seen:
                # size = idle + occupied-on-behalf: approximate by count at first sight + running tasks of o
                seen[o]=t
    issues['C09 runs']+=1
if __name__=='__main__':
    N=int(sys.argv[1]); issues=collections.Counter(); res=collections.Counter(); viol=collections.Counter(); ex={}
    d=tempfile.mkdtemp(dir='/tmp/explore/rx')
    for sd in range(N):
        sc=gen(random.Random(sd)); r,sim,df,tasks=runsc(sc,d); res[r]+=1
        for k,v in sim.env.viol.items():
            kk=k.split(' used')[0]; viol[kk]+=v; ex.setdefault(kk,(sd,k))
        if r=='ok': c09(sc,sim,issues)
    shutil.rmtree(d); print(res); print(viol); print(ex); print(issues)
