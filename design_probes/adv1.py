import sys; sys.path.insert(0,'/tmp/explore')
import probe2, probe3
from probe3 import *
from topsim.algorithms.scheduling import Scheduling
class Adv(Scheduling):
    def __init__(self, inner, rng, kinds): super().__init__(); self.inner=inner; self.rng=rng; self.kinds=kinds; self.fired=collections.Counter()
    def __repr__(self): return repr(self.inner)
    def to_df(self): return None
    def run(self, cluster, clock, workflow_plan, existing_schedule, task_pool):
        alloc,status,pool=self.inner.run(cluster,clock,workflow_plan,existing_schedule,task_pool)
        r=cluster._resources
        for t in list(alloc):
            if t in existing_schedule: continue
            if self.rng.random()<0.35:
                k=self.rng.choice(self.kinds)
                if k=='busy' and r['occupied']: alloc[t]=self.rng.choice(r['occupied']); self.fired[k]+=1
                elif k=='ingest' and r['ingest']: alloc[t]=self.rng.choice(r['ingest']); self.fired[k]+=1
                elif k=='dup' and len(alloc)>1:
                    other=[m for x,m in alloc.items() if x is not t]; alloc[t]=self.rng.choice(other); self.fired[k]+=1
                elif k=='foreign':
                    f=[m for o,v in r['idle'].items() if o!=workflow_plan.id for m in v]
                    if f: alloc[t]=self.rng.choice(f); self.fired[k]+=1
        return alloc,status,pool
def runadv(sc,d,kinds,seed):
    for i,(n,e) in enumerate(sc['wfs']): mkwf(f'{d}/wf{i}.json', n, e)
    mkcfg(f'{d}/cfg.json', sc['machines'], sc['obs'], sc['pipes'], sc['arrays'], sc['max_ingest'], sc['hot'], sc['cold'])
    env=HEnv(); inner = BatchProcessing(**sc['ap']) if sc['alg']=='batch' else QueueProcessing()
    adv=Adv(inner, random.Random(seed), kinds)
    sim=Simulation(env,f'{d}/cfg.json',Telescope,planning_model=BatchPlanning('batch'),planning_algorithm='batch',scheduling=adv,delay=None,timestamp=0); env.sim=sim
    try: sim.start(); return 'ok',sim,adv
    except Budget: return 'stuck',sim,adv
    except Exception as e:
        c=e.__cause__ or e
        tb=traceback.extract_tb(c.__traceback__)[-1]
        return 'exc %s@%s'%(type(e).__name__,tb.name),sim,adv
N=int(sys.argv[1]); res=collections.Counter(); viol=collections.Counter(); fired=collections.Counter(); once=collections.Counter()
d=tempfile.mkdtemp(dir='/tmp/explore/rx')
for sd in range(N):
    sc=gen(random.Random(sd))
    r0,_,_,_=runsc(sc,d)
    if r0!='ok': continue
    r,sim,adv=runadv(sc,d,['busy','ingest','dup','foreign'],sd)
    res[r]+=1; fired.update(adv.fired)
    for k,v in sim.env.viol.items(): viol[k.split(' used')[0]]+=v
    if r=='ok':
        ex=collections.Counter(rec['loc']['self'].id for rec in sim.env.log if rec['name']=='do_work')
        ntasks=sum(len(w[0]) for w in sc['wfs'])+sum(sc['pipes'][o['name']]['ingest_demand'] for o in sc['obs'])
        once['exactly once' if all(v==1 for v in ex.values()) and len(ex)==ntasks else 'NOT once']+=1
shutil.rmtree(d); print(res); print('viol',viol); print('fired',fired); print(once)
