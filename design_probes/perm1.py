import sys; sys.path.insert(0,'/tmp/explore')
import heapq, random as _r
import probe2
from probe2 import *
from simpy.core import NORMAL

def procof(ev):
    if ev.callbacks:
        for cb in ev.callbacks:
            s=getattr(cb,'__self__',None)
            if isinstance(s,Process): return s
    return None
PERM={'on':True,'changed':0,'dump':0}
class PEnv(VEnv):
    def __init__(self):
        super().__init__(); self.parent={}; self.lastperm=-1; self.prng=_r.Random(12345)
    def _spawn(self, gen):
        par=self.active_process
        p=super()._spawn(gen); self.parent[p]=par; return p
    def permute(self,t):
        q=self._queue
        ent=sorted([e for e in q if e[0]==t and e[1]==NORMAL], key=lambda e:e[2])
        if len(ent)<2: return
        names=[]
        blocks=[]; cur=None; order=[]
        for e in ent:
            p=procof(e[3]); nm=p._generator.gi_code.co_name if p is not None and p._generator is not None else '?'
            names.append(nm)
            if nm=='allocate_tasks':
                cur=[e]; blocks.append((p,cur)); order.append(('B',len(blocks)-1))
            elif nm=='allocate_task_to_cluster' and cur is not None and self.parent.get(p) is blocks[-1][0]:
                cur.append(e)
            else:
                cur=None; order.append(('E',e))
        if PERM['dump']>0 and len(blocks)>=2:
            PERM['dump']-=1; print('t=',t,names)
        if len(blocks)<2 or not PERM['on']: return
        idx=list(range(len(blocks))); self.prng.shuffle(idx)
        if idx!=sorted(idx): PERM['changed']+=1
        newseq=[]; bi=0
        for kind,x in order:
            if kind=='E': newseq.append(x)
            else:
                newseq.extend(blocks[idx[bi]][1]); bi+=1
        eids=[e[2] for e in ent]
        rest=[e for e in q if not (e[0]==t and e[1]==NORMAL)]
        new=[(t,NORMAL,eid,e[3]) for eid,e in zip(eids,newseq)]
        self._queue[:]=rest+new; heapq.heapify(self._queue)
    def step(self):
        if self._queue:
            t,prio=self._queue[0][0],self._queue[0][1]
            if prio==NORMAL and t==int(t) and t>self.lastperm:
                self.lastperm=t; self.permute(t)
        super().step()
probe2.VEnv=PEnv
if __name__=='__main__':
    N=int(sys.argv[1]); PERM['on']=sys.argv[2]=='on'; PERM['dump']=int(sys.argv[3]) if len(sys.argv)>3 else 0
    issues=collections.Counter(); res=collections.Counter()
    d=tempfile.mkdtemp(dir='/tmp/explore/rx')
    for sd in range(N):
        rng=random.Random(sd); sc=gen(rng)
        r,sim,df,tasks=runsc(sc,d); res[r]+=1
        if r=='ok': analyse(sc,sim,df,tasks,issues)
    shutil.rmtree(d)
    print(res,'perm changed',PERM['changed'])
    for k,v in sorted(issues.items()):
        if not k.startswith('rel-aft') and not k.startswith('ingest hold'): print(v,k)
