import warnings; warnings.filterwarnings('ignore')
import collections
from topsim.core.delay import DelayModel
res=collections.Counter(); ex={}
for dist in ['normal','poisson','uniform']:
    for deg in DelayModel.DelayDegree:
        for prob in [0,0.3,1.0]:
            for seed in [1,20,33]:
                for rt in list(range(0,25))+[40,60]:
                    dm=DelayModel(prob,dist,deg,seed)
                    try:
                        a=dm.generate_delay(rt); b=DelayModel(prob,dist,deg,seed).generate_delay(rt)
                        k='ok' if a>=rt else 'SHORTER'
                        if a!=b: k='NONDET'
                        if (deg.value==0 or prob==0 or rt==0) and a!=rt: k='CHANGED-when-should-not'
                        if not isinstance(a,int): k+=' nonint'
                    except Exception as e:
                        k='EXC %s'%type(e).__name__
                    res[(dist,k)]+=1; ex.setdefault((dist,k),(deg.name,prob,seed,rt))
for k,v in sorted(res.items()): print(v,k,ex[k])
