"""Long-lived helper: one fresh interpreter per PYTHONHASHSEED (fault kind F6).

Reads JSON requests on stdin, one per line; answers with one JSON line.
Launched by tsim.cases._helper with PYTHONHASHSEED set in the environment.
"""
import json
import os
import shutil
import sys
import tempfile


def main():
    sys.path.insert(0, os.path.dirname(os.path.dirname(os.path.abspath(__file__))))
    from tsim import cases
    d = tempfile.mkdtemp(prefix='tsim-hw-', dir=os.environ.get('TSIM_TMPROOT') or None)
    real_out = sys.stdout
    sys.stdout = open(os.devnull, 'w')
    try:
        for line in sys.stdin:
            line = line.strip()
            if not line:
                continue
            req = json.loads(line)
            try:
                if req['op'] == 'tables':
                    res, t = cases.run_for_tables(req['sc'], d)
                    t['nevents'] = res.nevents
                    t['hashseed'] = os.environ.get('PYTHONHASHSEED')
                    ans = t
                elif req['op'] == 'delaymodel':
                    ans = {'outs': cases._dm_eval(req['case'])}
                elif req['op'] == 'exec':
                    ans = cases.exec_case(req['case'], d)
                else:
                    ans = {'error': 'unknown op'}
            except Exception as e:      # noqa
                import traceback
                ans = {'error': '%s: %s' % (type(e).__name__, e), 'tb': traceback.format_exc()[-800:]}
            real_out.write(json.dumps(ans, default=str) + '\n')
            real_out.flush()
    finally:
        shutil.rmtree(d, ignore_errors=True)


if __name__ == '__main__':
    main()
