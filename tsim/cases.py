"""Case kinds: generation, execution, shrinking (DESIGN §2.7, §2.8, §4).

A *case* is a JSON dict with a 'kind'; ``exec_case`` is a pure function of
(case, code under test, PYTHONHASHSEED) and returns a plain dict.
"""
import copy
import hashlib
import json
import math
import os
import random
import subprocess
import sys
import traceback

from . import scenario as S
from . import sut
from . import opmachines as om

HERE = os.path.dirname(os.path.abspath(__file__))
PY = sys.executable


# --------------------------------------------------------------------- utils
def _out(res, extra=None):
    o = dict(status=res.status, exc=list(res.exc) if res.exc else None, T=float(res.T or 0),
             nevents=res.nevents, digest=res.digest, violations=list(res.violations),
             probes=dict(res.probes), faults=dict(res.faults),
             states=[list(s) if isinstance(s, tuple) else s for s in list(res.states)[:4000]])
    if extra:
        o.update(extra)
    return o


def table_digest(df, drop_config=True):
    if df is None:
        return None
    cols = [c for c in df.columns if not str(c).endswith('-algtime') and not (drop_config and c == 'config')]
    return hashlib.sha1(df[cols].to_csv().encode()).hexdigest()


def tables_of(res):
    """(per-step table, task table, event log) digests + small dumps."""
    sim = res.sim
    df = sim.monitor.df
    ev = sim.monitor.events
    tasks = res.tasks
    return dict(df=table_digest(df), tasks=table_digest(tasks), events=table_digest(ev),
                nrows=len(df), ntasks=(len(tasks) if tasks is not None else None), nev=len(ev))


def _df_rows(df):
    if df is None:
        return None
    cols = [c for c in df.columns if not str(c).endswith('-algtime') and c != 'config']
    return [tuple(map(str, r)) for r in df[cols].itertuples(index=True, name=None)], cols


def first_diff(a, b):
    ra, rb = _df_rows(a), _df_rows(b)
    if ra is None or rb is None:
        return 'one table missing'
    if ra[1] != rb[1]:
        return 'columns differ: %s vs %s' % (ra[1][:20], rb[1][:20])
    for i, (x, y) in enumerate(zip(ra[0], rb[0])):
        if x != y:
            d = [(ra[1][j - 1] if j else 'index', x[j], y[j]) for j in range(len(x)) if x[j] != y[j]]
            return 'row %d: %s' % (i, d[:4])
    if len(ra[0]) != len(rb[0]):
        return 'row counts %d vs %d' % (len(ra[0]), len(rb[0]))
    return None


# ------------------------------------------------------------------ hash helper
_HELPERS = {}


def _helper(hashseed):
    h = _HELPERS.get(hashseed)
    if h is not None and h.poll() is None:
        return h
    env = dict(os.environ)
    env['PYTHONHASHSEED'] = str(hashseed)
    env['PYTHONPATH'] = os.pathsep.join([os.environ.get('TOPSIM_REPO', '/repo'), os.path.dirname(HERE)])
    env['TQDM_DISABLE'] = '1'
    h = subprocess.Popen([PY, '-u', os.path.join(HERE, 'hashworker.py')], stdin=subprocess.PIPE,
                         stdout=subprocess.PIPE, stderr=subprocess.DEVNULL, env=env, text=True)
    _HELPERS[hashseed] = h
    return h


def helper_call(hashseed, req, timeout=120):
    h = _helper(hashseed)
    h.stdin.write(json.dumps(req) + '\n')
    h.stdin.flush()
    line = h.stdout.readline()
    if not line:
        raise RuntimeError('hash helper %s died' % hashseed)
    return json.loads(line)


def close_helper(hashseed):
    h = _HELPERS.pop(hashseed, None)
    if h is not None:
        try:
            h.stdin.close()
            h.wait(timeout=5)
        except Exception:
            h.kill()


def close_helpers():
    for h in _HELPERS.values():
        try:
            h.stdin.close()
            h.wait(timeout=5)
        except Exception:
            h.kill()
    _HELPERS.clear()


# ------------------------------------------------------------------------ gen
def _big(seed, tier, profile):
    # a quarter of the thorough-tier scenarios are larger (not for the real-monitor / paired profiles)
    if profile in ('real', 'repro', 'units', 'delay', 'gdelay'):
        return False
    return random.Random('big/%s' % seed).random() < (0.25 if tier == 'thorough' else 0.04)


def gen_case(kind, profile, seed, tier='quick'):
    if kind == 'sim':
        return {'kind': 'sim', 'sc': S.gen(seed, profile, big=_big(seed, tier, profile))}
    if kind == 'plandrv':
        rng = random.Random('plandrv/%s' % seed)
        return {'kind': 'plandrv', 'sc': S.gen(seed, profile), 'clocks': [rng.choice([0, 0, 3, 17]) for _ in range(4)],
                'same_clock': rng.random() < 0.7}
    if kind == 'taskdrv':
        rng = random.Random('taskdrv/%s' % seed)
        k = rng.choice([1, 1, 2, 3, 5, 7, 60, 3600])
        ms = [[rng.choice([1, 2, 4, 5, 10]) * k, rng.choice([1, 2, 5]) * k] for _ in range(rng.randint(1, 3))]
        if rng.random() < 0.25:
            # speeds that are not whole numbers (legal): floor(work / speed) as the code writes it, int(work / speed)
            ms = [[rng.choice([0.1, 0.2, 0.4, 2.5, 1, 5]), rng.choice([0.1, 0.4, 0.5, 1, 2])] for _ in ms]
        tasks = []
        for _ in range(rng.randint(2, 8)):
            m = rng.randrange(len(ms))
            cm = rng.choice([0, 0, 0.3, 0.99, 1, 1.01, 1.5, 2, 2.999, 3, 7, 11])
            dm = rng.choice([0, 0, 0, 0.5, 1, 2.5, 4, 9])
            tasks.append([m, cm * ms[m][0], dm * ms[m][1], rng.choice([0, 0, 0, 1, 2, 5])])
        return {'kind': 'taskdrv', 'machines': ms, 'tasks': tasks}
    if kind == 'cluster_ops':
        deep = tier == 'thorough'
        return om.gen_cluster_case(seed, depth=30 if deep else 12, maxm=6 if deep else 4)
    if kind == 'buffer_ops':
        return om.gen_buffer_case(seed, depth=20 if tier == 'thorough' else 10)
    if kind == 'repro':
        sc = S.gen(seed, profile)
        rng = random.Random('repro/%s' % seed)
        # a fixed pool of hash seeds (each worker keeps at most that many fresh interpreters alive)
        pool = [7, 4242, 99991, 31337, 2 ** 31 - 1]
        hs = [1] + rng.sample(pool, 2 if tier != 'thorough' else 4)
        return {'kind': 'repro', 'sc': sc, 'hashseeds': hs,
                # another simulation, abandoned part-way, runs in the same process between the two runs
                'interloper': {'seed': 'x/%s' % seed, 'until': rng.randint(1, 12), 'vuntil': rng.randint(1, 10)}}
    if kind == 'pause':
        sc = S.gen(seed, profile)
        rng = random.Random('pause/%s' % seed)
        return {'kind': 'pause', 'sc': sc, 'split_seed': rng.randint(0, 10 ** 6), 'ks': None,
                'nsplits': 3 if tier != 'thorough' else 12, 'cap': 30 if tier != 'thorough' else 90}
    if kind == 'pause_sample':
        # a few pause points per scenario instead of all of them (cheap; used by C12/C13)
        sc = S.gen(seed, profile)
        rng = random.Random('pause/%s' % seed)
        return {'kind': 'pause', 'sc': sc, 'split_seed': rng.randint(0, 10 ** 6), 'ks': None,
                'ks_frac': sorted(rng.random() for _ in range(2)), 'splits': None, 'nsplits': 1}
    if kind == 'units':
        sc = S.gen(seed, profile)
        rng = random.Random('units/%s' % seed)
        if rng.random() < 0.15:          # over the ingest-rate limit: both units must reject
            o = rng.choice(sc['obs'])
            o['data_product_rate'] = sc['hot']['max_ingest_rate'] + rng.randint(1, 3)
        return {'kind': 'units', 'sc': sc}
    if kind == 'delaymodel':
        rng = random.Random('dm/%s' % seed)
        return {'kind': 'delaymodel', 'dist': rng.choice(['normal', 'poisson', 'uniform']),
                'degree': rng.choice(['LOW', 'MID', 'HIGH', 'NONE']),
                'prob': rng.choice([0.0, 0.05, 0.3, 0.5, 0.9, 1.0]), 'seed': rng.choice([20, 0, 1, 7, 99, 3, 29] + [rng.randint(0, 10 ** 6) for _ in range(5)]),
                'runtimes': sorted(set([0, 1, 2] + [rng.randint(0, 60) for _ in range(8)])),
                # other models used in the same interpreter between two evaluations of this one: same
                # distribution and seed with another degree / probability (a parameter sweep), or anything
                'prelude': [[rng.choice(['same', 'normal', 'poisson', 'uniform']), rng.choice(['LOW', 'MID', 'HIGH', 'NONE']),
                             rng.choice([0.0, 0.3, 1.0]), rng.choice(['same', 20, 0, 7])] for _ in range(rng.randint(0, 3))],
                'fresh': rng.random() < 0.1, 'np_seed': rng.random() < 0.25}
    raise ValueError(kind)


# ----------------------------------------------------------------------- exec
def exec_case(case, d):
    k = case['kind']
    if k == 'chain':
        # earlier simulations of the same interpreter first (their verdicts are not of interest here), then the case
        for (kind, profile, seed, tier) in case['hist']:
            try:
                exec_case(gen_case(kind, profile, seed, tier), d)
            except Exception:
                pass
        return exec_case(case['case'], d)
    if k == 'sim':
        res = sut.run_scenario(case['sc'], d)
        return _out(res)
    if k == 'cluster_ops':
        return _out(om.run_cluster_case(case, d))
    if k == 'buffer_ops':
        return _out(om.run_buffer_case(case, d))
    if k == 'plandrv':
        return exec_plandrv(case, d)
    if k == 'taskdrv':
        return exec_taskdrv(case, d)
    if k == 'repro':
        return exec_repro(case, d)
    if k == 'pause':
        return exec_pause(case, d)
    if k == 'units':
        return exec_units(case, d)
    if k == 'delaymodel':
        return exec_delaymodel(case, d)
    raise ValueError(k)


# ......................................................... C14 plan driver
def exec_plandrv(case, d):
    """Calls the real planner directly, for every observation of a generated plan, at chosen clocks - in
    particular several observations at the *same* clock and the same observation twice, which the scheduler
    (one observation per timestep) never does.  Every plan is checked against the generated DAG."""
    import contextlib
    import io
    from .env import VerifEnv
    from . import oracles as _or
    sc = case['sc']
    env = VerifEnv()
    res = sut.Result()
    with contextlib.redirect_stdout(io.StringIO()):
        sim, fs = sut.build(sc, d, env, 'light')
        orc = _or.Oracle(sc, sim, env, None, res)
        obs = list(sim.instrument.observations)
        clocks = case['clocks']
        plans = 0
        try:
            for rnd in range(2):
                for i, o in enumerate(obs):
                    clock = clocks[0] if case['same_clock'] else clocks[i % len(clocks)]
                    o.ast = 0
                    o.plan = sim.planner.model.generate_plan(clock + 100 * rnd, sim.cluster, sim.buffer, o, None)
                    if rnd == 1:
                        # a second plan of the same observation at a later clock: ids must differ from the first
                        first = set(orc.ob[o.name]['planned'])
                        again = {t.id for t in o.plan.tasks}
                        if first & again:
                            orc.viol('C14', 'ids_repeat_across_clocks', '%s: %s' % (o.name, sorted(first & again)[:3]))
                        continue
                    orc._on_plan(o)
                    plans += 1
        except Exception as e:
            orc.viol('C14', 'planner_raises', '%s: %s' % (type(e).__name__, e))
    res.status = 'ok'
    res.T = 0
    out = _out(res)
    out['violations'] = [v for v in out['violations'] if v['prop'] == 'C14']
    out['probes']['direct_plans'] = plans
    if len(obs) >= 2 and case['same_clock']:
        out['probes']['same_clock_plans'] = 1
    return out


# ......................................................... C06 task driver
def exec_taskdrv(case, d):
    """Single Task.do_work executions on generated machines, driven directly (no scheduler): the
    runtime formula on demands of 0, less than one step of capacity, exact multiples and
    non-multiples, with per-task extra delay through the task.delay seam."""
    from .env import VerifEnv
    from topsim.core.task import Task
    from topsim.core.machine import Machine
    viol = []

    def add(clause, msg, site=''):
        if not any(v['clause'] == clause and v['site'] == site for v in viol):
            viol.append(dict(prop='C06', clause=clause, site=site, msg=msg[:300], t=None, seq=None))
    env = VerifEnv()
    ms = [Machine('m%d' % i, c, 1, 1, b) for i, (c, b) in enumerate(case['machines'])]
    recs = []
    for i, (mi, flops, data, extra) in enumerate(case['tasks']):
        t = Task('x_0_%d' % i, 0, 0, None, [], flops, data, {}, sut.InjectedDelay(extra))
        p = env.process(t.do_work(env, ms[mi], None))
        recs.append((t, p, mi, flops, data, extra))
    try:
        env.budget = 2000
        env.run()
    except Exception as e:
        add('do_work_raises', '%s: %s' % (type(e).__name__, e))
    out = []
    for (t, p, mi, flops, data, extra) in recs:
        c, b = case['machines'][mi]
        n = max(int(flops / c), int(data / b))
        if not p.triggered:
            add('never_finished', '%s' % t.id)
            continue
        d_ = t.aft - t.ast
        given_extra = extra if n > 0 else 0
        want = max(1, n + given_extra)
        if abs(d_ - want) > 1e-9:
            add('runtime', 'flops %s data %s on cpu %s bw %s (+%s): finish-start=%s, expected %s' % (
                flops, data, c, b, extra, d_, want), site='n=0' if n == 0 else 'n>0')
        if given_extra > 0 and not t.delay_flag:
            add('delayed_task_not_flagged', t.id)
        out.append((mi, flops, data, given_extra, d_, c, b))
    for a in out:
        for b_ in out:
            if a is b_ or a[3] != b_[3]:
                continue
            if a[0] == b_[0] and a[1] <= b_[1] and a[2] <= b_[2] and a[4] > b_[4] + 1e-9:
                add('not_monotone_in_work', '%s vs %s' % (a, b_))
            if a[1] == b_[1] and a[2] == b_[2] and a[5] <= b_[5] and a[6] <= b_[6] and a[4] < b_[4] - 1e-9:
                add('not_monotone_in_speed', '%s vs %s' % (a, b_))
    return dict(status='ok', exc=None, T=float(env.now), nevents=env.nevents, digest=env.digest(), violations=viol,
                probes={'zero_runtime_task': sum(1 for o in out if max(int(o[1] / o[5]), int(o[2] / o[6])) == 0),
                        'long_task': sum(1 for o in out if o[4] >= 3), 'mono_pairs': len(out) * (len(out) - 1)},
                faults={'F1': sum(1 for o in out if o[3] > 0)}, states=[])


# ............................................................... C10 repro
def run_for_tables(sc, d):
    res = sut.run_scenario(sc, d, monitor='real', want_tables=True)
    t = tables_of(res)
    t.update(status=res.status, exc=list(res.exc) if res.exc else None, T=float(res.T), env=res.digest)
    return res, t


def exec_repro(case, d):
    sc = case['sc']
    r1, t1 = run_for_tables(sc, d)
    out = _out(r1)
    out['violations'] = [v for v in out['violations']]
    viol = out['violations']

    def add(clause, msg, site=''):
        viol.append(dict(prop='C10', clause=clause, site=site, msg=msg[:300], t=None, seq=None))
    if case.get('interloper'):
        # state must not leak from one Simulation object to the next in the same interpreter: first the same
        # configuration with another delay degree (a parameter sweep), abandoned part-way ...
        try:
            vsc = copy.deepcopy(sc)
            dm = vsc['faults'].get('delay_model')
            if dm:
                dm['degree'] = {'LOW': 'HIGH', 'MID': 'LOW', 'HIGH': 'MID', 'NONE': 'HIGH'}[dm['degree']]
                dm['prob'] = 1.0
            sut.run_scenario(vsc, d, monitor='light', until=case['interloper'].get('vuntil', case['interloper']['until']))
            out['faults']['F6:variant'] = 1
        except Exception:
            pass
        # ... then an unrelated one
        try:
            isc = S.gen(case['interloper']['seed'], 'repro')
            isc['faults']['delay_model'] = None
            sut.run_scenario(isc, d, monitor='light', until=case['interloper']['until'])
            out['faults']['F6:interloper'] = 1
        except Exception:
            pass
    if r1.status == 'hang' or (r1.status != 'ok' and float(r1.T or 0) > 350):
        # the configuration does not complete (the known tiering deadlock, or a wall-clock verdict) and every further
        # run of it would cost as much again: nothing is compared
        out['probes']['long_incomplete_run_not_compared'] = 1
        return out
    r2, t2 = run_for_tables(sc, d)
    if r2.status == 'hang':
        out['probes']['long_incomplete_run_not_compared'] = 1
        return out
    out['nevents'] += r2.nevents
    out['T'] += float(r2.T)
    keys = ('status', 'exc', 'T', 'df', 'tasks', 'events', 'env')
    if any(t1[k] != t2[k] for k in keys):
        bad = [k for k in keys if t1[k] != t2[k]]
        msg = 'two runs in one process differ in %s' % bad
        if 'df' in bad:
            msg += '; ' + str(first_diff(r1.sim.monitor.df, r2.sim.monitor.df))
        add('same_process_rerun_differs', msg, site=','.join(bad))
    hs = {}
    try:
        for h in case['hashseeds']:          # all helpers work concurrently
            hp = _helper(h)
            hp.stdin.write(json.dumps({'op': 'tables', 'sc': sc}) + '\n')
            hp.stdin.flush()
        for h in case['hashseeds']:
            line = _helper(h).stdout.readline()
            if not line:
                raise RuntimeError('hash helper %s died' % h)
            hs[h] = json.loads(line)
            if 'error' in hs[h]:
                raise RuntimeError('hash helper %s: %s' % (h, hs[h]))
    except Exception as e:
        close_helpers()
        out['status'] = 'harness'
        out['exc'] = ['helper', str(e)]
        return out
    for h in case['hashseeds']:
        if h not in (1, 7, 4242, 99991, 31337, 2 ** 31 - 1):
            close_helper(h)         # ad-hoc hash seeds (replay files of older runs): do not let interpreters pile up
    if any(hs[h].get('status') == 'hang' for h in case['hashseeds']):
        out['probes']['long_incomplete_run_not_compared'] = 1       # a wall-clock verdict in a helper: inconclusive
        return out
    for h in case['hashseeds']:
        th = hs[h]
        out['nevents'] += th.get('nevents', 0)
        out['faults']['F6'] = out['faults'].get('F6', 0) + 1
        if any(t1[k] != th.get(k) for k in keys):
            bad = [k for k in keys if t1[k] != th.get(k)]
            if bad == ['env']:
                # outputs identical, only the internal event order differs: not a C10 violation
                out['probes']['order_only_difference'] = out['probes'].get('order_only_difference', 0) + 1
                continue
            add('differs_across_hash_seed',
                'PYTHONHASHSEED=%s vs %s differ in %s (T %s vs %s, status %s vs %s)' % (
                    os.environ.get('PYTHONHASHSEED'), h, bad, t1['T'], th.get('T'), t1['status'], th.get('status')),
                site=('tasks' if 'tasks' in bad else bad[0]))
            break
    wide = any(len(w['nodes']) >= 3 for w in sc['wfs'])
    het = len({(m['flops'], m['compute_bandwidth']) for m in sc['machines'].values()}) > 1
    if wide and het and r1.status == 'ok':
        out['probes']['hetero_wide_completed'] = 1
    return out


# ............................................................... C11 pause
def exec_pause(case, d):
    sc = case['sc']
    if (sc.get('faults') or {}).get('overrun'):
        # 'keep the clock running after completion' is a fault of plain runs; here both the reference
        # and the paused runs stop at completion
        sc = copy.deepcopy(sc)
        sc['faults'].pop('overrun', None)
    mon = 'real' if sc.get('monitor', 'real') == 'real' else 'light'
    ref = sut.run_scenario(sc, d, monitor=mon, want_tables=True)
    out = _out(ref)
    viol = out['violations']

    cur_plan = [None]

    def add(clause, msg, site=''):
        if not any(v['prop'] == 'C11' and v['clause'] == clause and v['site'] == site for v in viol):
            viol.append(dict(prop='C11', clause=clause, site=site, msg=msg[:300], t=None, seq=None, plan=cur_plan[0]))
    # refusals first (cheap, independent of T)
    _pause_refusals(sc, d, add, out)
    if ref.status != 'ok':
        return out
    T = int(ref.T)
    ref_snaps = ref.env.hooks.snaps
    ref_df, ref_tasks, ref_ev = ref.sim.monitor.df, ref.tasks, ref.sim.monitor.events
    ks = case.get('ks')
    if ks is None and case.get('ks_frac'):
        ks = sorted({min(T, max(1, int(round(f * T)))) for f in case['ks_frac']})
    exhaustive = ks is None
    if ks is None:
        ks = list(range(1, T + 1))       # k = T: the first start() already completes the run
        cap = case.get('cap', 30)
        if len(ks) > cap:
            rng = random.Random('ks/%s' % case.get('split_seed'))
            ks = sorted(rng.sample(ks, cap))
            exhaustive = False
    plans = [[k] for k in ks]
    rng = random.Random('split/%s' % case.get('split_seed'))
    if case.get('splits') is not None:
        plans += case['splits']
    elif T >= 4:
        for _ in range(case.get('nsplits', 3)):
            n = rng.randint(2, min(5, T - 1))
            plans.append(sorted(rng.sample(range(1, T), n)))
    out['probes']['pause_points'] = 0
    for plan in plans:
        cur_plan[0] = list(plan)
        r = sut.run_scenario(sc, d, pauses=plan, monitor=mon, want_tables=True)
        out['nevents'] += r.nevents
        out['T'] += float(r.T or 0)
        out['faults']['F5'] = out['faults'].get('F5', 0) + len(plan)
        out['probes']['pause_points'] += 1
        tag = 'single' if len(plan) == 1 else 'multi'
        for v in r.violations:       # the ordinary oracles also run on every paused run (C13 on F5 runs)
            if not any(x['prop'] == v['prop'] and x['clause'] == v['clause'] and x['site'] == v['site'] for x in viol):
                v = dict(v)
                v['msg'] = 'pauses %s: %s' % (plan, v['msg'])
                v['plan'] = list(plan)
                viol.append(v)
        if r.status == 'hang':
            out['probes']['slow_paused_run_not_compared'] = out['probes'].get('slow_paused_run_not_compared', 0) + 1
            continue        # a wall-clock verdict, not a property of the run
        if r.status != 'ok':
            add('paused_run_fails', 'pauses %s: %s %s' % (plan, r.status, r.exc), site=tag)
            if not any(v['prop'] == 'C04' and v['clause'] == 'paused_run_never_completes' for v in viol):
                # the uninterrupted run completed; run to completion in segments it does not (C04: exactly-once
                # and quiescence are statements about any run to completion)
                viol.append(dict(prop='C04', clause='paused_run_never_completes', site=r.status, t=None, seq=None,
                                 msg='pauses %s: %s %s at t=%s although the uninterrupted run completes at %s' % (
                                     plan, r.status, r.exc, r.T, ref.T)))
            continue
        if float(r.T) != float(ref.T):
            add('length_differs', 'pauses %s: ended at %s, uninterrupted %s' % (plan, r.T, ref.T), site=tag)
        sn = r.env.hooks.snaps
        for k in plan:
            if sn.get(k) != ref_snaps.get(k):
                a, b = sn.get(k) or {}, ref_snaps.get(k) or {}
                diff = {x: (a.get(x), b.get(x)) for x in set(a) | set(b) if a.get(x) != b.get(x)}
                add('state_at_pause_differs', 'pauses %s at t=%s: %s' % (plan, k, diff), site=tag)
        for t in ref_snaps:
            if sn.get(t) != ref_snaps[t]:
                add('trajectory_differs', 'pauses %s: state at t=%s differs' % (plan, t), site=tag)
                break
        x = first_diff(r.sim.monitor.df, ref_df)
        if x:
            add('per_step_table_differs', 'pauses %s: %s' % (plan, x), site=tag)
        x = first_diff(r.tasks, ref_tasks)
        if x:
            add('task_table_differs', 'pauses %s: %s' % (plan, x), site=tag)
        x = first_diff(r.sim.monitor.events.reset_index(drop=True), ref_ev.reset_index(drop=True))
        if x:
            add('event_log_differs', 'pauses %s: %s (rows %d vs %d)' % (
                plan, x, len(r.sim.monitor.events), len(ref_ev)), site=tag)
        # pause landed mid-something?
        for k in plan:
            s = ref_snaps.get(k) or {}
            if s.get('ingest'):
                out['probes']['pause_mid_ingest'] = out['probes'].get('pause_mid_ingest', 0) + 1
            if s.get('held'):
                out['probes']['pause_mid_task'] = out['probes'].get('pause_mid_task', 0) + 1
            if s.get('queue'):
                out['probes']['pause_mid_workflow'] = out['probes'].get('pause_mid_workflow', 0) + 1
    cur_plan[0] = None
    # the clock may be run on past the end of the work: start(T) / start(k)+resume(T), then resume(T+x), must
    # equal one uninterrupted start(runtime=T+x)
    if T >= 1 and mon == 'real':
        x = 1 + (case.get('split_seed', 0) % 3)
        refb = sut.run_scenario(sc, d, monitor=mon, want_tables=True, until=T + x)
        kk = max(1, T - (case.get('split_seed', 0) % 2) * (T // 2))
        planb = [T] if kk >= T else [kk, T]
        rb = sut.run_scenario(sc, d, pauses=planb, monitor=mon, want_tables=True, until=T + x)
        out['nevents'] += refb.nevents + rb.nevents
        out['faults']['F5:beyond_end'] = 1
        if refb.status == 'ok' and rb.status == 'ok':
            if float(rb.T) != float(refb.T):
                add('length_differs', 'pauses %s then resume(%s): clock at %s, uninterrupted start(runtime=%s) at %s' % (
                    planb, T + x, rb.T, T + x, refb.T), site='beyond_end')
            for what, a_, b_ in (('per_step_table_differs', rb.sim.monitor.df, refb.sim.monitor.df),
                                 ('task_table_differs', rb.tasks, refb.tasks),
                                 ('event_log_differs', rb.sim.monitor.events.reset_index(drop=True),
                                  refb.sim.monitor.events.reset_index(drop=True))):
                xd = first_diff(a_, b_)
                if xd:
                    add(what, 'pauses %s then resume(%s) vs start(runtime=%s): %s' % (planb, T + x, T + x, xd), site='beyond_end')
        elif refb.status == 'ok' and rb.status != 'ok':
            add('paused_run_fails', 'pauses %s then resume(%s): %s %s' % (planb, T + x, rb.status, rb.exc), site='beyond_end')
    out['exhaustive'] = exhaustive
    return out


class _NotApplicable(Exception):
    pass


def _pause_refusals(sc, d, add, out):
    import contextlib
    import io
    from .env import VerifEnv
    for mode in ('resume_first', 'start_twice', 'start_after_completion', 'start_after_paused_completion', 'start_after_error'):
        env = VerifEnv(budget=S.serial_bound(sc) + 5)
        bsc = sc
        if mode == 'start_after_error':
            # the first start() is aborted by a simulation error (an observation above the ingest-rate limit);
            # the simulation has been started all the same, and a second start() must be refused
            bsc = copy.deepcopy(sc)
            bsc['obs'][0]['data_product_rate'] = bsc['hot']['max_ingest_rate'] + 1
            bsc['hot']['capacity'] = max(bsc['hot']['capacity'], 10 * S.StepView(bsc).obs[bsc['obs'][0]['name']]['vol'] + 10)
            bsc['cold']['capacity'] = max(bsc['cold']['capacity'], bsc['hot']['capacity'])
        with contextlib.redirect_stdout(io.StringIO()):
            sim, fs = sut.build(bsc, d, env, 'light')

            def state():
                return (env.now, len(env._queue), sim.running, len(sim.monitor.df), len(sim.monitor.events),
                        [m.id for m in sim.cluster._resources['available']],
                        sim.buffer.hot[0].current_capacity, [o.status.value for o in sim.instrument.observations])
            try:
                if mode == 'resume_first':
                    s0 = state()
                    try:
                        sim.resume(5)
                        add('resume_before_start_not_refused', 'resume() before start() did not raise')
                    except RuntimeError:
                        pass
                    if state() != s0:
                        add('refused_call_changed_state', 'resume before start: %s -> %s' % (s0, state()), site=mode)
                else:
                    if mode == 'start_twice':
                        sim.start(runtime=2)
                    elif mode == 'start_after_error':
                        try:
                            sim.start()
                            raise _NotApplicable()      # no error: nothing to test here
                        except _NotApplicable:
                            raise
                        except Exception:
                            pass
                    elif mode == 'start_after_completion':
                        sim.start()
                    else:
                        # a pause point at or beyond the natural end: start(k) returns with the run complete
                        sim.start(runtime=S.serial_bound(sc) + 2)
                        try:
                            sim.resume(env.now + 1)     # a started simulation can always be resumed
                        except RuntimeError as e:
                            add('resume_after_start_refused', 'start(k>=T) then resume(): %s' % e, site=mode)
                    s0 = state()
                    try:
                        sim.start(runtime=int(env.now) + 3)
                        add('second_start_not_refused', 'start() twice did not raise (%s)' % mode, site=mode)
                    except RuntimeError:
                        pass
                    except Exception as e2:
                        add('second_start_not_refused', 'second start() (%s) ran the simulation again: %s: %s' % (
                            mode, type(e2).__name__, e2), site=mode)
                    if state() != s0:
                        add('refused_call_changed_state', 'second start: %s -> %s' % (s0, state()), site=mode)
                out['faults']['F5:refusal'] = out['faults'].get('F5:refusal', 0) + 1
            except Exception as e:        # the scenario itself crashed (other properties report that)
                pass


# ............................................................... C16 units
def exec_units(case, d):
    import contextlib
    import io
    from .env import VerifEnv
    sc = case['sc']
    k = S.unit_factor(sc['unit'])
    sc1 = copy.deepcopy(sc)
    sc1['unit'] = 'seconds'
    sc1['explicit_unit'] = case.get('explicit_seconds', False)
    viol = []

    def add(clause, msg, site=''):
        if not any(v['clause'] == clause and v['site'] == site for v in viol):
            viol.append(dict(prop='C16', clause=clause, site=site, msg=msg[:300], t=None, seq=None))
    # (i) initial-state differential
    parsed = {}
    for tag, s in (('k', sc), ('1', sc1)):
        env = VerifEnv()
        with contextlib.redirect_stdout(io.StringIO()):
            sim, _ = sut.build(s, d, env, 'light')
        parsed[tag] = dict(
            obs={o.name: (o.est, o.duration, o.ingest_data_rate, o.demand) for o in sim.instrument.observations},
            mach={m.id: (m.cpu, m.bandwidth) for m in sim.cluster.machines},
            sysbw=sim.cluster.system_bandwidth,
            hot=(sim.buffer.hot[0].total_capacity, sim.buffer.hot[0].max_ingest_data_rate),
            cold=(sim.buffer.cold[0].total_capacity, sim.buffer.cold[0].max_data_rate),
            arrays=sim.instrument.total_arrays, max_ingest=sim.instrument.max_ingest,
            pipes={n: p['ingest_demand'] for n, p in sim.instrument.pipelines.items()})
    # the parser itself, asked twice (a Config object may be handed to several actors): same answers both times
    try:
        from topsim.core.config import Config as _Config
        cfgk = _Config(sut.write_files(sc, d))
        both = []
        for _ in range(2):
            ms, sysbw = cfgk.parse_cluster_config()
            arrays, pipes, obs_, mx = cfgk.parse_instrument_config('telescope')
            hot_, cold_ = cfgk.parse_buffer_config()
            both.append(dict(mach={m.id: (m.cpu, m.bandwidth) for m in ms}, sysbw=sysbw,
                             obs={o.name: (o.est, o.duration, o.ingest_data_rate, o.demand) for o in obs_},
                             hot=(hot_[0].total_capacity, hot_[0].max_ingest_data_rate),
                             cold=(cold_[0].total_capacity, cold_[0].max_data_rate), arrays=arrays, max_ingest=mx))
        if both[0] != both[1]:
            bad = [k_ for k_ in both[0] if both[0][k_] != both[1][k_]]
            add('parse_not_repeatable', 'second parse of the same Config differs in %s: %s vs %s' % (
                bad, {k_: both[0][k_] for k_ in bad}, {k_: both[1][k_] for k_ in bad}), site=bad[0])
        ref = {k_: parsed['k'][k_] for k_ in ('mach', 'sysbw', 'obs', 'hot', 'cold', 'arrays', 'max_ingest')}
        if both[0] != ref:
            bad = [k_ for k_ in ref if both[0][k_] != ref[k_]]
            add('direct_parse_differs_from_simulation', 'Config.parse_* vs what the Simulation built: %s' % bad, site=bad[0])
    except Exception as e:
        add('parse_raises', '%s: %s' % (type(e).__name__, e))
    pk, p1 = parsed['k'], parsed['1']
    # all generated quantities are whole multiples of the unit, so every conversion is exact in floating point
    close = lambda a, b: a == b      # noqa: E731
    for n in p1['obs']:
        e1, d1, r1, dem1 = p1['obs'][n]
        ek, dk, rk, demk = pk['obs'][n]
        if not close(ek * k, e1):
            add('start_not_divided', '%s est %s (unit %s) vs %s s' % (n, ek, sc['unit'], e1), site='instrument')
        if not close(dk * k, d1):
            add('duration_not_divided', '%s duration %s vs %s s' % (n, dk, d1), site='instrument')
        if not close(rk, r1 * k):
            add('rate_not_multiplied', '%s rate %s vs %s /s' % (n, rk, r1), site='instrument')
        if demk != dem1:
            add('demand_scaled', n, site='instrument')
        if not close(dk * rk, d1 * r1):
            add('volume_depends_on_unit', '%s volume %s vs %s' % (n, dk * rk, d1 * r1), site='instrument')
    for m in p1['mach']:
        c1, b1 = p1['mach'][m]
        ck, bk = pk['mach'][m]
        if not close(ck, c1 * k):
            add('speed_not_multiplied', '%s cpu %s vs %s /s' % (m, ck, c1), site='cluster')
        if not close(bk, b1 * k):
            add('bandwidth_not_multiplied', '%s bw %s vs %s /s' % (m, bk, b1), site='cluster')
    if not close(pk['sysbw'], p1['sysbw'] * k):
        add('system_bandwidth_not_multiplied', '%s vs %s' % (pk['sysbw'], p1['sysbw']), site='cluster')
    if pk['hot'][0] != p1['hot'][0] or pk['cold'][0] != p1['cold'][0]:
        add('capacity_scaled', '%s %s vs %s %s' % (pk['hot'], pk['cold'], p1['hot'], p1['cold']), site='buffer')
    if not close(pk['hot'][1], p1['hot'][1] * k):
        add('hot_rate_not_multiplied', '%s vs %s' % (pk['hot'][1], p1['hot'][1]), site='buffer')
    if not close(pk['cold'][1], p1['cold'][1] * k):
        add('cold_rate_not_multiplied', '%s vs %s' % (pk['cold'][1], p1['cold'][1]), site='buffer')
    if (pk['arrays'], pk['max_ingest'], pk['pipes']) != (p1['arrays'], p1['max_ingest'], p1['pipes']):
        add('count_scaled', 'arrays/max_ingest/pipelines differ', site='instrument')
    named = {'seconds': 1, 'minutes': 60, 'hours': 3600}
    if isinstance(sc['unit'], str):
        for m in pk['mach']:
            if not close(pk['mach'][m][0], sc['machines'][m]['flops'] * named.get(sc['unit'], 1)):
                add('named_unit_factor', '%s: %s' % (sc['unit'], pk['mach'][m]), site='cluster')
    # (ii) trajectory differential
    rk = sut.run_scenario(sc, d)
    out = _out(rk)
    out['violations'] = [v for v in out['violations']] + viol
    bound1 = S.serial_bound(sc1)
    out['probes']['init_pairs'] = 1
    # unit-independent quantities measured on the unit-k trajectory against their *physical* values
    if rk.status == 'ok':
        hk = rk.env.hooks
        svk = S.StepView(sc)
        for o in sc['obs']:
            phys = o['data_product_rate'] * o['duration']
            if abs(hk.ob[o['name']]['dep'] - phys) > 1e-6:
                out['violations'].append(dict(prop='C16', clause='volume_differs_from_physical', site='', t=None, seq=None,
                                              msg='%s deposited %s under unit %s; rate x duration in seconds = %s' % (
                                                  o['name'], hk.ob[o['name']]['dep'], sc['unit'], phys)))
                break
        for e in hk.execs:
            if e['ingest'] or e['machine'] not in sc['machines']:
                continue
            on, nd = e['tid'].split('_')[0], S.node_of_tid(e['tid'])
            node = svk.nodes(on).get(nd)
            m = sc['machines'][e['machine']]
            if node is None or node[0] <= 0 or node[0] % (m['flops'] * k) or (node[1] and node[1] % (m['compute_bandwidth'] * k)):
                continue
            secs = max(node[0] / m['flops'], (node[1] or 0) / m['compute_bandwidth'])
            got = (e['task'].aft - e['task'].ast) * k
            if hk.ob[on]['inj'].get(e['tid']) is None and abs(got - secs) > 1e-6:
                out['violations'].append(dict(prop='C16', clause='runtime_differs_from_physical', site='', t=None, seq=None,
                                              msg='%s ran %s s under unit %s; work/speed = %s s' % (e['tid'], got, sc['unit'], secs)))
                break
    if k <= 7 and bound1 <= 2500:
        r1 = sut.run_scenario(sc1, d)
        out['nevents'] += r1.nevents
        out['T'] += float(r1.T or 0)
        out['probes']['trajectory_pairs'] = 1
        sk = rk.status if rk.status != 'exc' else 'exc:%s@%s' % (rk.exc[0], rk.exc[1])
        s1 = r1.status if r1.status != 'exc' else 'exc:%s@%s' % (r1.exc[0], r1.exc[1])
        if sk != s1 and 'budget' not in (sk, s1):
            add2 = dict(prop='C16', clause='outcome_depends_on_unit', site='', t=None, seq=None,
                        msg='unit %s: %s; seconds: %s' % (sc['unit'], sk, s1))
            out['violations'].append(add2)
        if 'ValueError' in sk and 'ValueError' in s1:
            out['probes']['overrate_both_reject'] = 1
        if rk.status == 'ok' and r1.status == 'ok':
            ok_, o1 = rk.env.hooks, r1.env.hooks
            for n in ok_.ob:
                if abs(ok_.ob[n]['dep'] - o1.ob[n]['dep']) > 1e-6:
                    out['violations'].append(dict(prop='C16', clause='deposited_volume_depends_on_unit', site='', t=None, seq=None,
                                                  msg='%s: %s vs %s' % (n, ok_.ob[n]['dep'], o1.ob[n]['dep'])))
            ek = {(e['tid'].split('_')[0], S.node_of_tid(e['tid'])): e for e in ok_.execs if not e['ingest']}
            e1 = {(e['tid'].split('_')[0], S.node_of_tid(e['tid'])): e for e in o1.execs if not e['ingest']}
            sv = S.StepView(sc)
            for key in ek:
                nd = sv.nodes(key[0]).get(key[1])
                m = ek[key]['machine']
                # only demands that are whole multiples of one timestep of machine capacity
                whole = nd is not None and m in sv.cpu and nd[0] >= sv.cpu[m] and nd[0] % sv.cpu[m] == 0 \
                    and (not nd[1] or nd[1] % sv.bw[m] == 0)
                if key in e1 and whole:
                    a = (ek[key]['task'].aft - ek[key]['task'].ast) * k
                    b = e1[key]['task'].aft - e1[key]['task'].ast
                    if abs(a - b) > 1e-6:
                        out['violations'].append(dict(prop='C16', clause='runtime_in_seconds_depends_on_unit', site='', t=None, seq=None,
                                                      msg='task %s: %s s under unit %s, %s s under seconds' % (key, a, sc['unit'], b)))
                        break
    return out


# .......................................................... C15a delay model
def _dm_eval(case):
    from topsim.core.delay import DelayModel
    outs = []
    seed = case['seed']
    if case.get('np_seed'):
        import numpy
        seed = numpy.int64(seed)
    for rt in case['runtimes']:
        dm = DelayModel(case['prob'], case['dist'], DelayModel.DelayDegree[case['degree']], seed)
        try:
            v = dm.generate_delay(rt)
            outs.append([rt, float(v)])
        except Exception as e:
            outs.append([rt, 'EXC %s' % type(e).__name__])
    return outs


def exec_delaymodel(case, d):
    from topsim.core.delay import DelayModel
    viol = []

    def add(clause, msg, site=''):
        if not any(v['clause'] == clause and v['site'] == site for v in viol):
            viol.append(dict(prop='C15', clause=clause, site=site, msg=msg[:300], t=None, seq=None))
    a = _dm_eval(case)
    for (dist, degree, prob, seed) in case.get('prelude') or []:
        other = dict(case, dist=case['dist'] if dist == 'same' else dist, degree=degree, prob=prob,
                     seed=case['seed'] if seed == 'same' else seed)
        _dm_eval(other)
    b = _dm_eval(case)
    fired = 0
    for (rt, v), (_, w) in zip(a, b):
        if isinstance(v, str):
            add('delay_model_raises', '%s(prob=%s,%s,seed=%s).generate_delay(%s): %s' % (
                case['dist'], case['prob'], case['degree'], case['seed'], rt, v),
                site='%s:%s' % (case['dist'], 'zero' if rt == 0 else 'pos'))
            continue
        if v < rt:
            add('shortened', 'runtime %s -> %s' % (rt, v), site=case['dist'])
        if (case['degree'] == 'NONE' or case['prob'] == 0 or rt == 0) and v != rt:
            add('changed_when_it_must_not', 'runtime %s -> %s with degree %s prob %s' % (rt, v, case['degree'], case['prob']),
                site=case['dist'])
        if v != w:
            add('not_deterministic', 'runtime %s: %s then %s (seed %s)' % (rt, v, w, case['seed']), site=case['dist'])
        if v > rt:
            fired += 1
        if v != int(v):
            add('not_whole_timesteps', 'runtime %s -> %s' % (rt, v), site=case['dist'])
    # copies (what the planner hands to each task) behave like the original
    dm = DelayModel(case['prob'], case['dist'], DelayModel.DelayDegree[case['degree']], case['seed'])
    dc = copy.copy(dm)
    for rt in case['runtimes'][:6]:
        try:
            x1 = dm.generate_delay(rt)
            if x1 != dc.generate_delay(rt):
                add('copy_differs', 'runtime %s' % rt, site=case['dist'])
            # the same object asked again (every task of a plan asks its own copy once; a user may ask twice)
            if dm.generate_delay(rt) != x1 or dm.generate_delay(rt) != x1:
                add('not_deterministic', 'runtime %s: the same model object answers differently when asked again' % rt,
                    site=case['dist'] + ':same_object')
        except Exception:
            pass
    nev = len(a)
    faults = {}
    if case.get('fresh') and not viol:
        try:
            hseed = random.Random(str(case['seed'])).randint(1, 10 ** 6)
            th = helper_call(hseed, {'op': 'delaymodel', 'case': case})
            if case['seed'] not in (20, 0, 1, 7, 99):
                close_helper(hseed)
            faults['F6'] = 1
            if th['outs'] != a:
                add('differs_across_processes', '%s vs %s' % (a[:4], th['outs'][:4]), site=case['dist'])
        except Exception as e:
            return dict(status='harness', exc=['helper', str(e)], T=0, nevents=nev, digest='', violations=viol,
                        probes={}, faults={}, states=[])
    return dict(status='ok', exc=None, T=0, nevents=nev, digest='', violations=viol,
                probes={'draws_fired': fired, 'zero_runtime': 1, ('dist_' + case['dist']): 1}, faults=faults,
                states=[[case['dist'], case['degree'], case['prob'], fired > 0]])


# --------------------------------------------------------------------- shrink
def _sc_candidates(sc):
    """Smaller scenarios, simplest first (DESIGN §2.8)."""
    # drop an observation
    if len(sc['obs']) > 1:
        for i in range(len(sc['obs'])):
            c = copy.deepcopy(sc)
            name = c['obs'][i]['name']
            del c['obs'][i]
            f = c['faults']
            f['delays'] = {k: v for k, v in f['delays'].items() if not k.startswith(name + ':')}
            f['stalls'].pop(name, None)
            ap = c.get('alg_params') or {}
            if ap.get('resource_split'):
                ap['resource_split'].pop(name, None)
            yield c
    f = sc['faults']
    # drop fault-plan entries
    if f.get('perm'):
        c = copy.deepcopy(sc)
        c['faults']['perm'] = None
        yield c
    if f.get('adv'):
        c = copy.deepcopy(sc)
        c['faults']['adv'] = None
        yield c
        if len(f['adv']['kinds']) > 1:
            for kk in f['adv']['kinds']:
                c = copy.deepcopy(sc)
                c['faults']['adv']['kinds'] = [x for x in f['adv']['kinds'] if x != kk]
                yield c
    if f.get('stalls'):
        c = copy.deepcopy(sc)
        c['faults']['stalls'] = {}
        yield c
    if f.get('norelease'):
        c = copy.deepcopy(sc)
        c['faults']['norelease'] = False
        yield c
    if f.get('ontime_status'):
        c = copy.deepcopy(sc)
        c['faults']['ontime_status'] = False
        yield c
    if f.get('copy_machines'):
        c = copy.deepcopy(sc)
        c['faults']['copy_machines'] = False
        yield c
    if sc.get('pipeline_order') not in (None, 'plan'):
        c = copy.deepcopy(sc)
        c['pipeline_order'] = 'plan'
        yield c
    if sc.get('cluster_header'):
        c = copy.deepcopy(sc)
        c['cluster_header'] = None
        yield c
    if f.get('delay_model'):
        c = copy.deepcopy(sc)
        c['faults']['delay_model'] = None
        yield c
    if f.get('delays'):
        c = copy.deepcopy(sc)
        c['faults']['delays'] = {}
        yield c
        for kk in list(f['delays']):
            c = copy.deepcopy(sc)
            del c['faults']['delays'][kk]
            yield c
    # drop a DAG node (highest id first) / an edge
    used = sorted({o['wf'] for o in sc['obs']})
    for w in used:
        wf = sc['wfs'][w]
        n = len(wf['nodes'])
        if n > 1:
            for idx in range(n - 1, -1, -1):
                c = copy.deepcopy(sc)
                last = c['wfs'][w]['nodes'][idx][0]
                del c['wfs'][w]['nodes'][idx]
                c['wfs'][w]['edges'] = [e for e in c['wfs'][w]['edges'] if e[0] != last and e[1] != last]
                for o in c['obs']:
                    if o['wf'] == w:
                        c['faults']['delays'].pop('%s:%s' % (o['name'], last), None)
                yield c
        for j in range(len(wf['edges'])):
            c = copy.deepcopy(sc)
            del c['wfs'][w]['edges'][j]
            yield c
    # fewer machines
    if len(sc['machines']) > 1:
        c = copy.deepcopy(sc)
        last = sorted(c['machines'])[-1]
        del c['machines'][last]
        if c.get('machine_order'):
            c['machine_order'] = [m for m in c['machine_order'] if m != last]
        nm = len(c['machines'])
        c['max_ingest'] = min(c['max_ingest'], nm)
        for o in c['obs']:
            o['ingest_demand'] = min(o['ingest_demand'], c['max_ingest'])
        ap = c.get('alg_params') or {}
        if ap:
            ap['min_resources_per_workflow'] = max(1, min(ap['min_resources_per_workflow'], nm // ap['max_resource_partitions'] or 1))
            if nm // ap['max_resource_partitions'] < 1:
                ap['max_resource_partitions'] = 1
            if ap.get('resource_split'):
                ap['resource_split'] = {k2: [min(v[0], nm), min(max(v[1], min(v[0], nm)), nm)] for k2, v in ap['resource_split'].items()}
        yield c
    if sc.get('machine_order'):
        c = copy.deepcopy(sc)
        c['machine_order'] = None
        yield c
    for w in sorted({o['wf'] for o in sc['obs']}):
        if sc['wfs'][w].get('label'):
            c = copy.deepcopy(sc)
            c['wfs'][w].pop('label')
            yield c
    # unit -> seconds
    if sc['unit'] != 'seconds':
        k = S.unit_factor(sc['unit'])
        c = copy.deepcopy(sc)
        c['unit'] = 'seconds'
        for o in c['obs']:
            o['start'] //= k
            o['duration'] //= k
        yield c
    # shrink numbers
    for i, o in enumerate(sc['obs']):
        k = S.unit_factor(sc['unit'])
        if o['duration'] > k:
            c = copy.deepcopy(sc)
            c['obs'][i]['duration'] = o['duration'] - k
            yield c
        if o['start'] > 0:
            c = copy.deepcopy(sc)
            c['obs'][i]['start'] = 0 if i == 0 else max(0, o['start'] - k)
            yield c
        for key in ('instrument_demand', 'ingest_demand', 'data_product_rate'):
            if o[key] > 1:
                c = copy.deepcopy(sc)
                c['obs'][i][key] = o[key] - 1
                yield c
    for w in used:
        wf = sc['wfs'][w]
        for idx, (n, comp, data) in enumerate(wf['nodes']):
            if data:
                c = copy.deepcopy(sc)
                c['wfs'][w]['nodes'][idx][2] = None
                yield c
        if [x[0] for x in wf['nodes']] != sorted(x[0] for x in wf['nodes']):
            c = copy.deepcopy(sc)
            c['wfs'][w]['nodes'].sort(key=lambda x: x[0])
            yield c
    if sc['pairing'] == 'batch' and (sc['alg_params'].get('resource_split')):
        c = copy.deepcopy(sc)
        c['alg_params']['resource_split'] = None
        yield c
    if len({(m['flops'], m['compute_bandwidth']) for m in sc['machines'].values()}) > 1:
        c = copy.deepcopy(sc)
        first = c['machines'][sorted(c['machines'])[0]]
        for m in c['machines']:
            c['machines'][m] = dict(first)
        yield c
    if sc['pairing'] not in ('queue',):
        c = copy.deepcopy(sc)
        c['pairing'] = 'queue'
        c['alg_params'] = {}
        yield c


def shrink_candidates(case, hint=None):
    k = case['kind']
    if k in ('sim', 'repro', 'pause', 'units', 'plandrv'):
        if k == 'pause' and hint and hint.get('plan') and (case.get('ks') is None or len(case.get('ks') or []) + len(case.get('splits') or []) > 1):
            # only the pause plan that failed, instead of every pause point
            pl = list(hint['plan'])
            c = dict(case)
            c.update(ks=pl if len(pl) == 1 else [], splits=[] if len(pl) == 1 else [pl], nsplits=0, ks_frac=None)
            yield c
        for sc in _sc_candidates(case['sc']):
            c = dict(case)
            c['sc'] = sc
            yield c
    elif k in ('cluster_ops', 'buffer_ops'):
        ops = case['ops']
        for i in range(len(ops) - 1, -1, -1):
            c = copy.deepcopy(case)
            del c['ops'][i]
            yield c
        for i, op in enumerate(ops):
            if op[0] == 'advance' and op[1] > 1:
                c = copy.deepcopy(case)
                c['ops'][i][1] = op[1] - 1
                yield c
        ms = case['cfg']['machines']
        if len(ms) > 1:
            c = copy.deepcopy(case)
            del c['cfg']['machines'][sorted(ms)[-1]]
            yield c
    elif k == 'delaymodel':
        for i in range(len(case.get('prelude') or [])):
            c = copy.deepcopy(case)
            del c['prelude'][i]
            yield c
        for i in range(len(case['runtimes'])):
            if len(case['runtimes']) > 1:
                c = copy.deepcopy(case)
                del c['runtimes'][i]
                yield c
