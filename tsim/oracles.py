"""Ledger + oracles for full-simulation runs (DESIGN §2.5, §4).

The ledger is built from the spawn/exit log and the *scenario* only; topsim's
own counters are never compared with themselves.  Every oracle computes its
expectations from the scenario's physical values × unit factor (StepView).
"""
import math

from .scenario import StepView, node_of_tid

EPS = 1e-6


def _mid(m):
    return m if isinstance(m, str) else getattr(m, 'id', m)


class Oracle(object):

    def __init__(self, sc, sim, env, fs, res):
        self.sc, self.sim, self.env, self.fs, self.res = sc, sim, env, fs, res
        self.v = StepView(sc)
        self.M = sorted(sc['machines'])
        self.Mset = set(self.M)
        f = sc.get('faults') or {}
        self.adv = bool(f.get('adv'))
        self.delays = f.get('delays') or {}
        self.pairing = sc['pairing']
        self.obsnames = [o['name'] for o in sc['obs']]
        self._seen = set()
        self.snaps = {}
        # ledger
        self.holders = []              # dicts
        self.holder_by_rec = {}
        self.execs = []                # dicts
        self.exec_by_rec = {}
        self.open_exec = {}            # machine id -> list of open exec dicts
        self.open_holders = {}         # machine id -> list of entered, open holders
        self.ob = {n: dict(start=[], stream=[], stream_resumes=0, dep=0, at_spawn=[], at_first=[],
                           at_exit=[], q_on=[], q_off=[], sched_on=[], freed=[], fin_t=[],
                           run_t=[], planned={}, ingest_pool={}, plan_ok=None, inj={})
                   for n in self.obsnames}
        self.moves = []                # dict(rec, dir, obs, steps=[(t, dh, dc)], open)
        self.inflight = 0
        self.prev = None               # previous after_event mini-state
        self.prev_status = {n: 'WAITING' for n in self.obsnames}
        self.prev_queue = []
        self.prev_hfin = set()
        self.prev_hsched = set()
        self.prev_idle = {}
        self.maxconc = 0
        self.paused_at = []
        c = sim.cluster
        self.nM = len(c.machines)
        from topsim.core.monitor import Monitor as _Mon
        from . import sut as _sut
        self.real_monitor = _Mon.collate_actor_dataframes is _sut._REAL_COLLATE
        self.parts = (sc.get('alg_params') or {}).get('max_resource_partitions')
        self.resv_set = {}
        self.over_threshold = False

    # ----------------------------------------------------------------- utils
    def viol(self, prop, clause, msg, site=''):
        key = (prop, clause, site)
        if key in self._seen:
            return
        self._seen.add(key)
        self.res.violations.append(dict(prop=prop, clause=clause, site=site, msg=str(msg)[:300],
                                        t=self.env.now, seq=self.env.seq))

    def probe(self, k, n=1):
        self.res.probes[k] += n

    def pool_of(self, mid):
        r = self.sim.cluster._resources
        out = []
        for m in r['available']:
            if m.id == mid:
                out.append('available')
        for m in r['ingest']:
            if m.id == mid:
                out.append('ingest')
        for m in r['occupied']:
            if m.id == mid:
                out.append('occupied')
        for o, ms in r['idle'].items():
            for m in ms:
                if m.id == mid:
                    out.append('idle:%s' % o)
        return out

    def node_of(self, tid):
        return node_of_tid(tid)

    def obs_of(self, tid):
        return tid.split('_', 1)[0]

    # ------------------------------------------------------------------ spawn
    def on_spawn(self, rec):
        n = rec.name
        now = self.env.now
        if n == 'allocate_task_to_cluster':
            task, machine = rec.loc.get('task'), rec.loc.get('machine')
            mid = _mid(machine)
            h = dict(rec=rec, task=task, tid=task.id, machine=mid, obs=rec.loc.get('observation'),
                     ingest=bool(rec.loc.get('ingest')), spawn=rec.spawn, exit=None, entered=False,
                     pool=self.pool_of(mid), preds=rec.loc.get('predecessor_allocations'),
                     exec=None)
            self.holders.append(h)
            self.holder_by_rec[rec] = h
        elif n == 'do_work':
            task, machine = rec.loc.get('self'), rec.loc.get('machine')
            mid = _mid(machine)
            h = self.holder_by_rec.get(rec.parent)
            e = dict(rec=rec, task=task, tid=task.id, machine=mid, spawn=rec.spawn, exit=None,
                     holder=h, ingest=bool(h and h['ingest']), obs=(h['obs'] if h else None),
                     preds=[p.id for p in (rec.loc.get('predecessor_allocations') or [])])
            if h is not None:
                h['entered'] = True
                h['exec'] = e
                self.open_holders.setdefault(mid, []).append(h)
            self.execs.append(e)
            self.exec_by_rec[rec] = e
            op = self.open_exec.setdefault(mid, [])
            if op:
                self.viol('C01', 'two_open_executions',
                          'machine %s starts %s while %s still executing' % (mid, task.id, op[0]['tid']))
            # hand-over probe
            op.append(e)
            nopen = sum(len(x) for x in self.open_exec.values())
            if nopen > self.maxconc:
                self.maxconc = nopen
            if mid not in self.Mset:
                self.viol('C01', 'execution_on_unknown_machine', '%s on %s' % (task.id, mid))
            else:
                pools = self.pool_of(mid)
                if pools != ['occupied'] and pools != ['ingest']:
                    self.viol('C01', 'executing_machine_not_in_busy_pool',
                              '%s runs %s but is in %s' % (mid, task.id, pools))
                if e['ingest'] and pools == ['occupied'] or (not e['ingest'] and pools == ['ingest']):
                    self.viol('C02', 'wrong_busy_pool', '%s ingest=%s in %s' % (mid, e['ingest'], pools))
            if h is not None and len(self.open_holders[mid]) > 1:
                self.viol('C01', 'two_holders_on_machine', '%s: %s' % (
                    mid, [x['tid'] for x in self.open_holders[mid]]))
            # C09: batch tasks only on own reservation
            if self.pairing == 'batch' and h is not None and not h['ingest'] and not self.adv:
                own = 'idle:%s' % h['obs']
                if h['pool'] != [own]:
                    self.viol('C09', 'task_outside_own_reservation',
                              '%s allocated on %s which was in %s' % (task.id, mid, h['pool']))
            if h is not None and h['ingest']:
                if h['pool'] and any(p.startswith('idle:') for p in h['pool']):
                    self.viol('C09', 'ingest_on_reserved_machine', '%s on %s %s' % (task.id, mid, h['pool']))
            # C17 planned machine
            if not e['ingest'] and self.pairing == 'dynamic' and not self.adv:
                on = self.obs_of(task.id)
                if on in self.ob:
                    pm = self.ob[on]['planned'].get(task.id)
                    if pm is not None and pm != mid:
                        self.viol('C17', 'ran_off_plan', '%s planned on %s ran on %s' % (task.id, pm, mid))
            # F2: an injected illegal proposal must never execute
            if self.fs is not None and self.fs.injected and not e['ingest']:
                self._check_injected_exec(e)
        elif n == 'allocate_ingest':
            o = rec.loc.get('observation')
            if o is not None and o.name in self.ob:
                self.ob[o.name]['start'].append(now)
        elif n == 'ingest_data_stream':
            o = rec.loc.get('observation')
            if o is not None and o.name in self.ob:
                self.ob[o.name]['stream'].append(rec)
        elif n == 'allocate_tasks':
            o = rec.loc.get('observation')
            if o is not None and o.name in self.ob:
                self.ob[o.name]['at_spawn'].append(now)
                rec.extra['obs'] = o.name
                self._on_plan(o)
        elif n in ('move_hot_to_cold', 'move_cold_to_hot'):
            b = self.sim.buffer
            src = b.hot[0] if n == 'move_hot_to_cold' else b.cold[0]
            st = src.observations['stored']
            mv = dict(rec=rec, dir='h2c' if n == 'move_hot_to_cold' else 'c2h',
                      obs=(st[-1].name if st else None), size=(st[-1].total_data_size if st else None),
                      steps=[], open=True, spawn=rec.spawn, conc=self.inflight,
                      hot0=b.hot[0].current_capacity, cold0=b.cold[0].current_capacity,
                      lists0=self._buflists())
            self.moves.append(mv)
            rec.extra['mv'] = mv
            self.inflight += 1
            self.probe('tier_move')

    def _check_injected_exec(self, e):
        # The rewritten proposal (task, machine, round clock) may legitimately run later,
        # once the machine has become free; what must never happen is an execution while the
        # machine was in the illegal state.  Pool/open-exec checks above already assert that;
        # here we additionally forbid the never-legal kinds.
        for (clock, oid, tid, kind, mid) in self.fs.injected:
            if tid == e['tid'] and mid == e['machine'] and kind in ('unknown',):
                self.viol('C01', 'illegal_proposal_executed', '%s %s on %s' % (kind, tid, mid))
            if tid == e['tid'] and kind == 'foreign' and mid == e['machine'] and self.pairing == 'batch':
                own = 'idle:%s' % oid
                if e['holder'] is not None and e['holder']['pool'] != [own]:
                    self.viol('C01', 'illegal_proposal_executed', 'foreign %s on %s' % (tid, mid))

    # ---------------------------------------------------- plan hand-over (C14)
    def _on_plan(self, o):
        L = self.ob[o.name]
        plan = o.plan
        nodes = self.v.nodes(o.name)
        edges = self.v.edges(o.name)
        if plan is None:
            self.viol('C14', 'no_plan', o.name)
            return
        # injected delays through the task.delay seam (F1)
        from .sut import InjectedDelay, RecordingDelay
        for t in plan.tasks:
            nd = self.node_of(t.id)
            extra = self.delays.get('%s:%s' % (o.name, nd))
            if self.delays:
                t.delay = InjectedDelay(extra or 0)
                L['inj'][t.id] = t.delay
            elif t.delay is not None and (self.sc.get('faults') or {}).get('delay_model'):
                t.delay = RecordingDelay(t.delay)
                L['inj'][t.id] = t.delay
        # planned machines (C17)
        for t in plan.tasks:
            L['planned'][t.id] = _mid(t.allocated_machine_id)
        ok = True

        def bad(clause, msg):
            nonlocal ok
            ok = False
            self.viol('C14', clause, '%s: %s' % (o.name, msg))
        ids = [t.id for t in plan.tasks]
        if len(ids) != len(nodes):
            bad('task_count', '%d tasks for %d nodes' % (len(ids), len(nodes)))
        if len(set(ids)) != len(ids):
            bad('ids_not_unique', ids)
        bynode = {}
        for t in plan.tasks:
            nd = self.node_of(t.id)
            if nd not in nodes:
                bad('unknown_node', t.id)
                continue
            if nd in bynode:
                bad('node_twice', t.id)
            bynode[nd] = t
            if o.name not in t.id:
                bad('id_without_observation_name', t.id)
        for other, LL in self.ob.items():
            if other != o.name:
                if set(ids) & set(LL['planned']):
                    bad('ids_clash_across_observations', sorted(set(ids) & set(LL['planned']))[:3])
        if set(bynode) != set(nodes):
            bad('node_set', '%s vs %s' % (sorted(bynode), sorted(nodes)))
            L['plan_ok'] = False
            return
        gpred = {n: set() for n in nodes}
        gsucc = {n: set() for n in nodes}
        vol = {}
        for (u, w, x) in edges:
            gpred[w].add(u)
            gsucc[u].add(w)
            vol[(u, w)] = x
        pos = {}
        for i, t in enumerate(plan.tasks):
            pos[self.node_of(t.id)] = i
        idof = {n: bynode[n].id for n in nodes}
        for n, t in bynode.items():
            comp, data = nodes[n][0], nodes[n][1] or 0
            if t.flops != comp:
                bad('compute_demand', '%s flops %s != %s' % (t.id, t.flops, comp))
            if (t.task_data or 0) != data:
                bad('data_demand', '%s data %s != %s' % (t.id, t.task_data, data))
            if set(t.pred or []) != {idof[p] for p in gpred[n]}:
                bad('pred_list', '%s pred %s != %s' % (t.id, sorted(t.pred or []), sorted(idof[p] for p in gpred[n])))
            io = t.io or {}
            want = {idof[p]: vol[(p, n)] for p in gpred[n]}
            if dict(io) != want:
                bad('edge_volumes', '%s io %s != %s' % (t.id, dict(io), want))
            for p in gpred[n]:
                if pos[p] > pos[n]:
                    bad('not_topological', '%s listed before predecessor %s' % (t.id, idof[p]))
        g = plan.graph
        try:
            ge = {(self.node_of(a.id), self.node_of(b.id)) for a, b in g.edges()}
            if ge != set(vol):
                bad('edge_set', '%s vs %s' % (sorted(ge), sorted(vol)))
            if {self.node_of(a.id) for a in g.nodes()} != set(nodes):
                bad('graph_nodes', 'graph nodes differ')
            for n, t in bynode.items():
                ps = {self.node_of(x.id) for x in plan.get_task_predecessors(t)}
                ss = {self.node_of(x.id) for x in plan.get_task_successors(t)}
                if ps != gpred[n]:
                    bad('predecessor_query', '%s -> %s, graph says %s' % (t.id, sorted(ps), sorted(gpred[n])))
                if ss != gsucc[n]:
                    bad('successor_query', '%s -> %s, graph says %s' % (t.id, sorted(ss), sorted(gsucc[n])))
        except Exception as e:          # a broken query is a C14 failure, not a harness error
            bad('query_raises', '%s: %s' % (type(e).__name__, e))
        L['plan_ok'] = ok
        L['plan_obj'] = (plan, dict(gpred), dict(gsucc))
        # a plan handed over earlier must still answer for its own tasks after later plans were generated
        # (two observations may share one workflow description)
        for other, LL in self.ob.items():
            if other != o.name and LL.get('plan_obj') and LL.get('plan_ok'):
                self._recheck_plan(other, 'after %s was planned' % o.name)
        self.probe('plans_checked')
        if len(nodes) >= 4 and any(len(p) >= 2 for p in gpred.values()):
            self.probe('plan_with_join')

    def _recheck_plan(self, on, when):
        plan, gpred, gsucc = self.ob[on]['plan_obj']
        byn = {}
        for t in list(plan.graph.nodes()):
            byn[self.node_of(getattr(t, 'id', str(t)))] = t
        try:
            for n in gpred:
                t = byn.get(n)
                if t is None or not str(getattr(t, 'id', '')).startswith(on + '_'):
                    self.viol('C14', 'plan_changed_later', '%s: graph of the plan no longer holds its own task for node %s (%s); nodes now %s' % (
                        on, n, when, [getattr(x, 'id', x) for x in list(plan.graph.nodes())[:4]]))
                    return
                ps = {self.node_of(x.id) for x in plan.get_task_predecessors(t)}
                ss = {self.node_of(x.id) for x in plan.get_task_successors(t)}
                if ps != gpred[n] or ss != gsucc[n]:
                    self.viol('C14', 'plan_changed_later', '%s node %s: predecessors %s successors %s, graph says %s / %s (%s)' % (
                        on, n, sorted(ps), sorted(ss), sorted(gpred[n]), sorted(gsucc[n]), when))
                    return
        except Exception as e:
            self.viol('C14', 'plan_changed_later', '%s: query raises %s: %s (%s)' % (on, type(e).__name__, e, when))

    # ------------------------------------------------------------------- exit
    def on_exit(self, rec):
        n = rec.name
        if n == 'do_work':
            e = self.exec_by_rec.get(rec)
            if e is not None:
                e['exit'] = rec.exit
                op = self.open_exec.get(e['machine'], [])
                if e in op:
                    op.remove(e)
        elif n == 'allocate_task_to_cluster':
            h = self.holder_by_rec.get(rec)
            if h is not None:
                h['exit'] = rec.exit
                lst = self.open_holders.get(h['machine'], [])
                if h in lst:
                    lst.remove(h)
                h['ok'] = bool(rec.proc.ok)
        elif n == 'allocate_tasks':
            on = rec.extra.get('obs')
            if on:
                self.ob[on]['at_exit'].append(self.env.now)
        elif n in ('move_hot_to_cold', 'move_cold_to_hot'):
            mv = rec.extra.get('mv')
            if mv is not None:
                mv['open'] = False
                mv['exit'] = rec.exit
                mv['ret'] = rec.proc.value if rec.proc.ok else None
                mv['lists1'] = self._buflists()
                b = self.sim.buffer
                mv['hot1'] = b.hot[0].current_capacity
                mv['cold1'] = b.cold[0].current_capacity
                self.inflight -= 1
        elif n == 'ingest_data_stream':
            o = rec.loc.get('observation')
            if o is not None and o.name in self.ob and rec.proc.ok:
                L = self.ob[o.name]
                want = self.v.obs[o.name]
                if L['stream_resumes'] != want['dur']:
                    self.viol('C07', 'ingest_steps', '%s deposited in %d steps, duration %s' % (
                        o.name, L['stream_resumes'], want['dur']))
                if abs(o.total_data_size - want['vol']) > EPS:
                    self.viol('C07', 'ingest_total', '%s total %s != rate*duration %s' % (
                        o.name, o.total_data_size, want['vol']))
                if rec.exit[0] - rec.spawn[0] != want['dur'] - 1:
                    self.viol('C07', 'ingest_span', '%s stream spanned %s..%s for duration %s' % (
                        o.name, rec.spawn[0], rec.exit[0], want['dur']))

    def _buflists(self):
        b = self.sim.buffer
        h, c = b.hot[0].observations, b.cold[0].observations
        return dict(hs=[o.name for o in h['stored']], hsch=[o.name for o in h['scheduled']],
                    hf=[o.name for o in h['finished']], ht=h['transfer'].name if h['transfer'] else None,
                    cs=[o.name for o in c['stored']], ct=c['transfer'].name if c['transfer'] else None)

    # --------------------------------------------------------------- resume
    def on_resume(self, rec):
        # deposits (C07 ledger): one per resume of the ingest stream
        if rec.name == 'ingest_data_stream':
            o = rec.loc.get('observation')
            if o is not None and o.name in self.ob and o.status.value == 'RUNNING' \
                    and not (rec.proc.triggered and not rec.proc.ok):
                L = self.ob[o.name]
                L['stream_resumes'] += 1
                L['dep'] += self.v.obs[o.name]['rate']
        elif rec.name in ('move_hot_to_cold', 'move_cold_to_hot'):
            mv = rec.extra.get('mv')
            if mv is not None:
                b = self.sim.buffer
                mv['steps'].append((self.env.now, b.hot[0].current_capacity, b.cold[0].current_capacity,
                                    self.inflight))

    # ----------------------------------------------------------- after event
    def after_event(self, rec):
        sim = self.sim
        env = self.env
        c = sim.cluster
        r = c._resources
        now = env.now
        q = env._queue
        urgent_pending = bool(q) and q[0][0] == now and q[0][1] < 1
        # ---- C02 partition
        ids = [m.id for m in r['available']] + [m.id for m in r['ingest']] + [m.id for m in r['occupied']]
        for o, ms in r['idle'].items():
            ids += [m.id for m in ms]
        if len(ids) != self.nM or set(ids) != self.Mset:
            dup = sorted({x for x in ids if ids.count(x) > 1})
            lost = sorted(self.Mset - set(ids))
            self.viol('C02', 'pools_not_a_partition', 'dup=%s lost=%s extra=%s' % (
                dup, lost, sorted(set(ids) - self.Mset)),
                site='dup' if dup else ('lost' if lost else 'extra'))
        nocc, ning = len(r['occupied']), len(r['ingest'])
        # ---- busy machines <-> open executions/holders (C01/C02)
        if not urgent_pending:
            nhold = 0
            for mid, lst in self.open_holders.items():
                nhold += len(lst)
            if nhold != nocc + ning:
                self.viol('C02', 'busy_pools_vs_open_holders', 'occupied+ingest=%d, machines held=%d' % (
                    nocc + ning, nhold))
            u = c._usage_data
            if u['available'] != self.nM - nhold:
                self.viol('C02', 'free_count_untrue', 'reports %s free, true %s' % (u['available'], self.nM - nhold))
            if u['running_tasks'] != nhold or len(c._tasks['running']) != nhold:
                self.viol('C02', 'running_count_untrue', 'reports %s/%s running, true %s' % (
                    u['running_tasks'], len(c._tasks['running']), nhold))
            nfin = sum(1 for h in self.holders if h['exit'] is not None and h.get('ok') and h['entered'])
            if u['finished_tasks'] != nfin:
                self.viol('C02', 'finished_count_untrue', 'reports %s finished, true %s' % (u['finished_tasks'], nfin))
            if c.num_provisioned_obs != len(r['idle']):
                self.viol('C09', 'reservation_count_untrue', 'num_provisioned_obs=%s, reservations=%s' % (
                    c.num_provisioned_obs, sorted(r['idle'])))
        # ---- C09 reservations
        if self.pairing == 'batch':
            idle = r['idle']
            if len(idle) > self.parts:
                self.viol('C09', 'too_many_reservations', '%s > %s' % (sorted(idle), self.parts))
            for o, ms_ in idle.items():
                R = self.resv_set.get(o)
                if R is not None and o in self.prev_idle and not self.adv:
                    extra = [m.id for m in ms_ if m.id not in R]
                    if extra:
                        self.viol('C09', 'reservation_grew', '%s was reserved %s and now also holds %s' % (o, sorted(R), extra))
            if idle.keys() != self.prev_idle.keys():
                for o in idle:
                    if o not in self.prev_idle:
                        self.resv_set[o] = {m.id for m in idle[o]}
                        self._on_reservation(o, len(idle[o]))
                for o in self.prev_idle:
                    if o not in idle:
                        self.ob[o].setdefault('res_off', []).append(now) if o in self.ob else None
                self.prev_idle = {o: None for o in idle}
        elif r['idle']:
            self.viol('C09', 'reservation_without_batch', sorted(r['idle']))
        # ---- C08 caps
        tel = sim.instrument
        if tel.telescope_use > self.sc['arrays'] or tel.telescope_use < 0:
            self.viol('C08', 'array_use_out_of_range', '%s of %s' % (tel.telescope_use, self.sc['arrays']))
        if ning > self.sc['max_ingest']:
            self.viol('C08', 'ingest_limit_exceeded', '%s > %s' % (ning, self.sc['max_ingest']))
        # ---- C07 bounds + conservation
        b = sim.buffer
        h, cd = b.hot[0], b.cold[0]
        hfree, cfree = h.current_capacity, cd.current_capacity
        if h.total_capacity and (h.total_capacity - hfree) / h.total_capacity > 0.6:
            self.over_threshold = True      # the tiering region (and with it the known cold-parking finding) was entered
        if hfree < -EPS:
            self.viol('C07', 'hot_free_negative', hfree)
        if hfree > h.total_capacity + EPS:
            self.viol('C07', 'hot_free_above_capacity', hfree)
        # C07 speaks of the hot buffer only (cold: "back at full free capacity after the last workflow");
        # cold-tier excursions are counted, not alarmed on (they occur when Buffer.run starts several
        # hot->cold moves at once, inside the tiering region of the known finding)
        if cfree < -EPS or cfree > cd.total_capacity + EPS:
            self.probe('cold_free_out_of_range_events')
        hfin = h.observations['finished']
        if len(hfin) != len(self.prev_hfin):
            for o in hfin:
                if o.name not in self.prev_hfin:
                    self.prev_hfin.add(o.name)
                    if o.name in self.ob:
                        self.ob[o.name]['freed'].append(now)
                        self._on_freed(o.name)
        resident = 0
        for n, L in self.ob.items():
            if L['dep'] and n not in self.prev_hfin:
                resident += L['dep']
        used = (h.total_capacity - hfree) + (cd.total_capacity - cfree)
        if abs(used - resident) > EPS:
            self.viol('C07', 'space_not_conserved', 'used hot+cold=%s, resident data=%s' % (used, resident))
        elif self.inflight == 0:
            cres = sum(self.ob[o.name]['dep'] for o in cd.observations['stored'] if o.name in self.ob)
            if abs((cd.total_capacity - cfree) - cres) > EPS:
                self.viol('C07', 'tier_accounting', 'cold used %s, cold-resident %s' % (cd.total_capacity - cfree, cres))
            # C18: with no move in flight every resident observation is listed in exactly one tier
            hl = [o.name for o in h.observations['stored']] + [o.name for o in h.observations['scheduled']]
            cl = [o.name for o in cd.observations['stored']]
            for n, L in self.ob.items():
                if not L['dep'] or n in self.prev_hfin or self.prev_status.get(n) == 'RUNNING':
                    continue
                k_ = hl.count(n) + cl.count(n)
                if k_ != 1 and not (L['stream'] and not L['stream'][-1].proc.triggered):
                    self.viol('C18', 'not_in_exactly_one_tier', '%s holds %s of data and is listed in %d tiers (hot %s, cold %s)' % (
                        n, L['dep'], k_, hl, cl), site='sim')
            if h.observations['transfer'] is not None or cd.observations['transfer'] is not None:
                self.viol('C18', 'transfer_slot_not_cleared', 'no move in flight but a transfer slot is set', site='sim')
        for o in sim.instrument.observations:
            L = self.ob.get(o.name)
            if L is not None and abs(o.total_data_size - L['dep']) > EPS:
                self.viol('C07', 'observation_size_vs_deposits', '%s size %s, deposited %s' % (
                    o.name, o.total_data_size, L['dep']))
        # ---- status / queue tracking (C08, C13)
        for o in sim.instrument.observations:
            s = o.status.value
            ps = self.prev_status.get(o.name)
            if s != ps:
                L = self.ob[o.name]
                if (ps, s) == ('WAITING', 'RUNNING'):
                    L['run_t'].append(now)
                elif (ps, s) == ('RUNNING', 'FINISHED'):
                    L['fin_t'].append(now)
                else:
                    self.viol('C08', 'illegal_status_transition', '%s %s->%s' % (o.name, ps, s))
                self.prev_status[o.name] = s
        qn = [o.name for o in sim.scheduler.observation_queue]
        if qn != self.prev_queue:
            for n in qn:
                if n not in self.prev_queue and n in self.ob:
                    self.ob[n]['q_on'].append(now)
            for n in self.prev_queue:
                if n not in qn and n in self.ob:
                    self.ob[n]['q_off'].append(now)
            self.prev_queue = qn
        # ---- C19 queries (pure)
        busy_true = (nocc + ning > 0) or any(self.open_holders.get(m) for m in self.open_holders)
        # The queries are asked only in light-monitor runs.  In the real-monitor runs (C10-C13) the harness asks
        # nothing, so that a query with a side effect shows up as a difference between a run that asks every
        # step (Simulation.start()) and one that does not (start(k) + resume).
        if not self.real_monitor:
            try:
                ci = c.is_idle()
                if bool(ci) != (not busy_true):
                    self.viol('C19', 'cluster_is_idle', 'is_idle()=%s but occupied=%d ingest=%d held=%d' % (
                        ci, nocc, ning, sum(len(x) for x in self.open_holders.values())),
                        site='true_while_busy' if ci else 'false_while_idle')
                be = b.is_empty()
                if bool(be) != (resident <= EPS):
                    self.viol('C19', 'buffer_is_empty', 'is_empty()=%s, resident data %s' % (be, resident))
                si = sim.scheduler.is_idle()
                if bool(si) != (len(qn) == 0):
                    self.viol('C19', 'scheduler_is_idle', 'is_idle()=%s queue=%s' % (si, qn))
                if si:
                    # ... and by the ledger: an observation handed over to the scheduler stays queued until every task
                    # of its workflow has executed
                    for n_, L_ in self.ob.items():
                        if L_['at_spawn']:
                            done_ = {self.node_of(e_['tid']) for e_ in self.execs
                                     if not e_['ingest'] and e_['exit'] is not None and self.obs_of(e_['tid']) == n_}
                            left_ = set(self.v.nodes(n_)) - done_
                            if left_ and not self.adv:
                                self.viol('C19', 'scheduler_idle_while_workflow_in_progress',
                                          'is_idle()=True at %s although tasks %s of %s have not run to completion' % (
                                              now, sorted(left_)[:6], n_))
                                break
                ti = tel.is_idle()
                t_true = all(v == 'FINISHED' for v in self.prev_status.values()) and tel.telescope_use == 0
                if bool(ti) != t_true:
                    self.viol('C19', 'telescope_is_idle', 'is_idle()=%s status=%s use=%s' % (
                        ti, self.prev_status, tel.telescope_use))
                # ... and by the harness' own ledger (not the status field): idle only once every observation has
                # been observed for its whole duration
                if ti:
                    early = [n_ for n_, L_ in self.ob.items()
                             if not L_['start'] or now < L_['start'][0] + self.v.obs[n_]['dur'] - EPS]
                    if early:
                        self.viol('C19', 'telescope_idle_before_observations_ended', 'is_idle()=True at %s; %s' % (
                            now, {n_: (self.ob[n_]['start'], self.v.obs[n_]['dur']) for n_ in early}))
                fin = sim.is_finished()
                f_true = (not busy_true) and resident <= EPS and not qn and t_true
                if bool(fin) != f_true:
                    self.viol('C19', 'simulation_is_finished', 'is_finished()=%s, truth %s' % (fin, f_true))
            except Exception as e:
                self.viol('C19', 'query_raises', '%s %s' % (type(e).__name__, e))
        # ---- abstract state (coverage measure)
        st = (len(r['available']), ning, nocc, len(r['idle']), len(qn),
              int(4 * (h.total_capacity - hfree) / h.total_capacity) if h.total_capacity else 0,
              sum(1 for v in self.prev_status.values() if v == 'WAITING'),
              sum(1 for v in self.prev_status.values() if v == 'RUNNING'), self.inflight)
        self.res.states.add(st)

    def _on_reservation(self, o, size):
        ap = self.sc['alg_params']
        M = self.nM
        mn = ap['min_resources_per_workflow']
        split = ap.get('resource_split')
        if split:
            lo, hi = split[o]
            lo = max(lo, mn)
        elif mn == 0:
            lo, hi = 1, int(M / ap['max_resource_partitions'])      # a reservation holds at least one machine
        else:
            lo, hi = mn, int(M / ap['max_resource_partitions'])
        self.probe('reservation')
        if not (lo <= size <= hi):
            self.viol('C09', 'reservation_size', '%s reserved %d machines, allowed %d..%d' % (o, size, lo, hi))
        if o in self.ob:
            self.ob[o].setdefault('res_on', []).append((self.env.now, size))

    def _on_freed(self, on):
        # the observation's data left the hot buffer: its whole workflow must be done
        nodes = self.v.nodes(on)
        done = {self.node_of(h['tid']) for h in self.holders
                if not h['ingest'] and h['exit'] is not None and h.get('ok') and h['entered']
                and self.obs_of(h['tid']) == on}
        if done != set(nodes) and not self.adv:
            self.viol('C07', 'freed_before_workflow_complete', '%s freed with tasks %s outstanding' % (
                on, sorted(set(nodes) - done)))

    # -------------------------------------------------------------- boundary
    def on_boundary(self, t):
        sim = self.sim
        c = sim.cluster
        r = c._resources
        b = sim.buffer
        h, cd = b.hot[0], b.cold[0]
        sch = sim.scheduler
        self.snaps[t] = dict(
            avail=[m.id for m in r['available']], ingest=[m.id for m in r['ingest']],
            occ=[m.id for m in r['occupied']], idle={k: [m.id for m in v] for k, v in r['idle'].items()},
            nrun=len(c._tasks['running']), nfin=sum(1 for v in c._tasks['finished'].values() if v),
            held=sum(len(x) for x in self.open_holders.values()),
            done=sum(1 for x in self.holders if x['exit'] is not None and x.get('ok') and x['entered']),
            hot=h.current_capacity, cold=cd.current_capacity,
            hstored=[o.name for o in h.observations['stored']], cstored=[o.name for o in cd.observations['stored']],
            hsched=[o.name for o in h.observations['scheduled']],
            status=dict(self.prev_status), queue=list(self.prev_queue), tuse=sim.instrument.telescope_use,
            prov=sch.provision_ingest, sstat=sch.schedule_status.value,
            dep={n: L['dep'] for n, L in self.ob.items()},
            resident=sum(L['dep'] for n, L in self.ob.items() if L['dep'] and n not in self.prev_hfin),
            nopen=sum(len(x) for x in self.open_exec.values()), inflight=self.inflight)

    def on_pause(self, k):
        self.paused_at.append(k)

    # ---------------------------------------------------------------- finish
    def finish(self):
        res = self.res
        st = res.status
        completed = st == 'ok' and not self.paused_only()
        self._c05()
        self._c01_recorded()
        self._c07_overrate()
        self._c08()
        self._c03_c06()
        self._c15b()
        self._c18_sim()
        if completed:
            self._c04()
            self._c09_end()
            # C02: when a simulation ends every machine is back in the available pool, no reservation outstanding
            r_ = self.sim.cluster._resources
            if r_['idle'] or r_['occupied'] or r_['ingest'] or sorted(m.id for m in r_['available']) != self.M:
                self.viol('C02', 'end_state', 'available=%s ingest=%s occupied=%s reservations=%s' % (
                    [m.id for m in r_['available']], [m.id for m in r_['ingest']], [m.id for m in r_['occupied']],
                    {k_: [m.id for m in v_] for k_, v_ in r_['idle'].items()}),
                    site='reservation' if r_['idle'] else 'pools')
            b = self.sim.buffer
            if b.hot[0].current_capacity != b.hot[0].total_capacity or b.cold[0].current_capacity != b.cold[0].total_capacity:
                self.viol('C07', 'buffers_not_empty_after_last_workflow', 'hot %s/%s cold %s/%s' % (
                    b.hot[0].current_capacity, b.hot[0].total_capacity, b.cold[0].current_capacity, b.cold[0].total_capacity))
        if self.real_monitor:
            self._c12()
            self._c13(completed)
        if res.status == 'budget' and self.adv:
            # F2 run that neither completed nor was rejected with an error: proposals that must merely be
            # *skipped* (busy / ingest / duplicate machine) may not lose a task.  Cold-storage parking (the
            # known C05 finding) is excluded by state, everything else is a C04 failure.
            b = self.sim.buffer
            from .scenario import feasible as _feasible
            if _feasible(self.sc) and (not self.over_threshold or (
                    not b.cold[0].observations['stored'] and b.cold[0].observations['transfer'] is None)):
                miss = []
                for n in self.obsnames:
                    if self.ob[n]['at_spawn']:
                        done = {self.node_of(e['tid']) for e in self.execs if not e['ingest'] and self.obs_of(e['tid']) == n}
                        miss += ['%s_%s' % (n, x) for x in sorted(set(self.v.nodes(n)) - done)]
                self.viol('C04', 'never_completes_under_adversarial_proposals',
                          'no error and no completion by t=%s (bound %s); tasks never executed: %s; fired %s' % (
                              self.env.now, res.bound, miss[:8], dict(self.fs.fired) if self.fs else {}))
        if res.status == 'budget' and not self.adv:
            # asked to run to completion, a feasible configuration never gets there: some observation is never
            # observed or some task never executed (the liveness side is C05's; the known cold-storage parking is
            # excluded by state exactly as above)
            b = self.sim.buffer
            from .scenario import feasible as _feasible
            if _feasible(self.sc) and (not self.over_threshold or (
                    not b.cold[0].observations['stored'] and b.cold[0].observations['transfer'] is None)):
                never = [n for n in self.obsnames if not self.ob[n]['start']]
                miss = []
                for n in self.obsnames:
                    done = {self.node_of(e['tid']) for e in self.execs if not e['ingest'] and self.obs_of(e['tid']) == n}
                    miss += ['%s_%s' % (n, x) for x in sorted(set(self.v.nodes(n)) - done)]
                self.viol('C04', 'never_completes', 'no completion by t=%s (bound %s); observations never observed: %s; tasks never '
                          'executed: %s' % (self.env.now, res.bound, never, miss[:8]))
        if not completed and res.status == 'exc' and not self.adv:
            from .scenario import feasible
            if feasible(self.sc):
                # asked to run to completion, the simulation aborted instead: its tasks cannot all have executed
                self.viol('C04', 'run_aborted', '%s in %s (%s): %s' % res.exc, site='%s@%s' % (res.exc[0], res.exc[1]))
        self._probes()

    def paused_only(self):
        return False

    # ..................................................................... C05
    def _c05(self):
        res = self.res
        if self.adv:
            return
        from .scenario import feasible
        if not feasible(self.sc):
            return
        if res.status == 'budget':
            sim = self.sim
            b = sim.buffer
            where = []
            for o in sim.instrument.observations:
                n = o.name
                if o.status.value == 'WAITING':
                    where.append('waiting')
                elif o.status.value == 'RUNNING':
                    where.append('ingesting')
                elif o in b.cold[0].observations['stored']:
                    where.append('cold_stored')
                elif o in b.hot[0].observations['stored']:
                    where.append('hot_stored')
                elif o in sim.scheduler.observation_queue:
                    where.append('queued')
                elif o in b.hot[0].observations['finished']:
                    where.append('done')
                elif b.hot[0].observations['transfer'] is o or b.cold[0].observations['transfer'] is o:
                    where.append('in_transfer')
                else:
                    where.append('lost')
            sig = '+'.join(sorted(set(where) - {'done'}))
            quiet = not (sim.scheduler.observation_queue or sim.cluster._tasks['running']
                         or sim.cluster._resources['idle'] or sim.cluster._resources['ingest']
                         or sim.cluster._resources['occupied'] or self.inflight)
            sig += '/quiet' if quiet else '/busy'
            if 'cold_stored' in where and not self.over_threshold:
                # parked in cold storage although the hot buffer never went over its tiering threshold: not the
                # known finding
                sig += '/never_over_threshold'
            res.stuck = dict(where=where, queue=len(sim.scheduler.observation_queue),
                             running=len(sim.cluster._tasks['running']),
                             idle=sorted(sim.cluster._resources['idle']),
                             prov=sim.scheduler.provision_ingest)
            self.viol('C05', 'bound_exceeded', 'not finished at bound %s; observations: %s; %s' % (
                res.bound, where, res.stuck), site=sig)
        elif res.status == 'hang':
            self.viol('C05', 'hang', '%s in %s (%s): %s' % res.exc, site=res.exc[1])
        elif res.status == 'exc':
            self.viol('C05', 'raised', '%s in %s (%s): %s' % res.exc, site='%s@%s' % (res.exc[0], res.exc[1]))

    # ............................................................ C07 over-rate
    def _c07_overrate(self):
        over = [n for n, w in self.v.obs.items() if w['rate'] > self.v.hot_rate]
        if not over:
            return
        res = self.res
        started = [n for n in over if self.ob[n]['start']]
        if not started:
            return
        self.probe('overrate_observation_started')
        self.res.faults['F7:overrate'] += 1
        if res.status == 'exc' and res.exc[0] == 'ValueError' and res.exc[1] == 'process_incoming_data_stream':
            for n in started:
                o = [x for x in self.sim.instrument.observations if x.name == n][0]
                if o.total_data_size != 0 or self.ob[n]['dep'] != 0:
                    self.viol('C07', 'rejected_ingest_changed_state', '%s deposited %s before the rejection' % (n, o.total_data_size))
        elif res.status != 'budget':
            self.viol('C07', 'overrate_ingest_accepted', '%s: rate %s above the limit %s was not rejected (run ended %s %s)' % (
                started, [self.v.obs[n]['rate'] for n in started], self.v.hot_rate, res.status, res.exc))

    # ..................................................................... C04
    def _c04(self):
        sim = self.sim
        v = self.v
        # observations once each
        for n, L in self.ob.items():
            if len(L['start']) != 1 or len(L['run_t']) != 1 or len(L['fin_t']) != 1:
                self.viol('C04', 'observation_not_observed_once', '%s starts=%s running=%s finished=%s' % (
                    n, L['start'], L['run_t'], L['fin_t']))
        # executions
        cnt = {}
        for e in self.execs:
            cnt[e['tid']] = cnt.get(e['tid'], 0) + 1
        for n in self.obsnames:
            nodes = v.nodes(n)
            ing = [e for e in self.execs if e['ingest'] and e['tid'].startswith(n + '_ingest')]
            if len(ing) != v.obs[n]['ingest']:
                self.viol('C04', 'ingest_executions', '%s: %d ingest executions, demand %d' % (
                    n, len(ing), v.obs[n]['ingest']))
            wf = [e for e in self.execs if not e['ingest'] and self.obs_of(e['tid']) == n]
            seen = {}
            for e in wf:
                nd = self.node_of(e['tid'])
                seen[nd] = seen.get(nd, 0) + 1
            miss = sorted(set(nodes) - set(seen))
            twice = sorted(k for k, c in seen.items() if c > 1)
            extra = sorted(set(seen) - set(nodes))
            if miss:
                self.viol('C04', 'task_never_executed', '%s nodes %s' % (n, miss))
            if twice:
                self.viol('C04', 'task_executed_twice', '%s nodes %s' % (n, twice))
            if extra:
                self.viol('C04', 'unknown_task_executed', '%s nodes %s' % (n, extra))
        for tid, c in cnt.items():
            if c > 1:
                self.viol('C04', 'task_executed_twice', tid, site='any')
        # quiescence
        c = sim.cluster
        r = c._resources
        b = sim.buffer
        prob = []
        if any(self.open_exec.get(m) for m in self.open_exec):
            prob.append('open executions')
        if c._tasks['running']:
            prob.append('running=%s' % c._tasks['running'])
        if sim.scheduler.observation_queue:
            prob.append('queue=%s' % sim.scheduler.observation_queue)
        if r['idle']:
            prob.append('reservations=%s' % sorted(r['idle']))
        if len(r['available']) != self.nM or r['occupied'] or r['ingest']:
            prob.append('available=%d/%d' % (len(r['available']), self.nM))
        if b.hot[0].current_capacity != b.hot[0].total_capacity:
            prob.append('hot %s/%s' % (b.hot[0].current_capacity, b.hot[0].total_capacity))
        if b.cold[0].current_capacity != b.cold[0].total_capacity:
            prob.append('cold %s/%s' % (b.cold[0].current_capacity, b.cold[0].total_capacity))
        if sim.instrument.telescope_use != 0:
            prob.append('telescope_use=%s' % sim.instrument.telescope_use)
        if any(o.status.value != 'FINISHED' for o in sim.instrument.observations):
            prob.append('observations not finished')
        if prob:
            self.viol('C04', 'not_quiescent_on_return', '; '.join(prob), site=prob[0].split('=')[0].split(' ')[0])
        # task table
        tasks = self.res.tasks
        if tasks is not None:
            rows = list(tasks.index)
            want = sorted(e['tid'] for e in self.execs)
            if sorted(rows) != want:
                self.viol('C04', 'task_table_rows', 'rows=%d executions=%d; missing %s extra %s' % (
                    len(rows), len(want), sorted(set(want) - set(rows))[:3], sorted(set(rows) - set(want))[:3]))
            else:
                for e in self.execs:
                    row = tasks.loc[e['tid']]
                    if abs(row['ast'] - e['task'].ast) > EPS or abs(row['aft'] - e['task'].aft) > EPS:
                        self.viol('C04', 'task_table_times', e['tid'])
                    if e['exit'] is None:
                        continue

    # ................................................................ C03, C06
    def _c03_c06(self):
        v = self.v
        byid = {}
        for e in self.execs:
            byid.setdefault(e['tid'], e)
        cross_pos = same = 0
        for e in self.execs:
            t = e['task']
            if e['exit'] is None or t.aft == -1:
                continue
            d = t.aft - t.ast
            if e['ingest']:
                on = e['tid'].split('_ingest')[0]
                if on in v.obs and abs(d - v.obs[on]['dur']) > EPS:
                    self.viol('C06', 'ingest_runtime', '%s ran %s, observation duration %s' % (
                        e['tid'], d, v.obs[on]['dur']))
                continue
            on = self.obs_of(e['tid'])
            nd = self.node_of(e['tid'])
            if on not in self.ob or e['machine'] not in self.Mset:
                continue
            nodes = v.nodes(on)
            if nd not in nodes:
                continue
            n_ = v.runtime(nodes[nd], e['machine'])
            inj = self.ob[on]['inj'].get(e['tid'])
            expect = None
            if inj is None:
                expect = max(1, n_)
            elif inj.calls:
                rt, ret = inj.calls[-1]
                if rt != self._nominal(e, n_):
                    self.viol('C06', 'delay_model_input', '%s model given %s, nominal %s' % (e['tid'], rt, n_))
                expect = max(1, ret)
            e['n'] = n_
            e['d'] = d
            if n_ == 0:
                self.probe('zero_runtime_task')
            if n_ >= 3:
                self.probe('long_task')
            if expect is not None and abs(d - expect) > EPS:
                self.viol('C06', 'runtime', '%s on %s: finish-start=%s, expected %s (work/speed=%s)' % (
                    e['tid'], e['machine'], d, expect, n_), site='n=0' if n_ == 0 else 'n>0')
            elif expect is not None and self.res.tasks is not None and e['tid'] in self.res.tasks.index:
                # ... and as recorded in the task table the run returned
                row = self.res.tasks.loc[e['tid']]
                try:
                    dt = float(row['aft']) - float(row['ast'])
                    if abs(dt - expect) > EPS:
                        self.viol('C06', 'runtime_in_task_table', '%s: the returned table records %s..%s (%s), expected %s' % (
                            e['tid'], row['ast'], row['aft'], dt, expect))
                except Exception:
                    pass
            # held for the whole runtime
            h = e['holder']
            if h is not None and h['exit'] is not None and h['exit'][0] < t.aft - 1 - EPS:
                self.viol('C06', 'machine_released_early', '%s released at %s, aft %s' % (e['tid'], h['exit'][0], t.aft))
            # ---------- C03
            if self.adv:
                continue
            alloc = h['spawn'][0] if h else e['spawn'][0]
            arrivals = [alloc]
            for (u, w, vol) in v.edges(on):
                if w != nd:
                    continue
                pid = None
                for x in self.execs:
                    if not x['ingest'] and self.obs_of(x['tid']) == on and self.node_of(x['tid']) == u:
                        pid = x
                        break
                if pid is None or pid['exit'] is None:
                    self.viol('C03', 'started_before_predecessor_ran', '%s before node %s' % (e['tid'], u))
                    continue
                pa = pid['task'].aft
                if t.ast < pa - EPS:
                    self.viol('C03', 'started_before_predecessor_finished', '%s ast %s < %s aft %s' % (
                        e['tid'], t.ast, pid['tid'], pa))
                ph = pid['holder']
                if ph is not None and (ph['exit'] is None or ph['exit'][1] > e['spawn'][1]):
                    self.viol('C03', 'allocated_before_predecessor_released', '%s spawned seq %s, %s released %s' % (
                        e['tid'], e['spawn'][1], pid['tid'], ph['exit']))
                if pid['machine'] != e['machine']:
                    arr = pa + vol / v.bw[e['machine']]
                    arrivals.append(arr)
                    if arr > alloc + EPS:
                        cross_pos += 1
                    if t.ast < arr - EPS:
                        self.viol('C03', 'transfer_wait_short', '%s ast %s < arrival %s from %s' % (
                            e['tid'], t.ast, arr, pid['tid']))
                else:
                    same += 1
            if abs(t.ast - max(arrivals)) > EPS:
                self.viol('C03', 'start_not_exact', '%s ast %s != max(alloc %s, arrivals %s)' % (
                    e['tid'], t.ast, alloc, arrivals[1:]))
        if cross_pos:
            self.probe('cross_machine_wait', cross_pos)
        if same:
            self.probe('same_machine_edge', same)
        if cross_pos and same:
            self.probe('c03_nontrivial')
        # C06 monotonicity on pairs of executions of this run
        wf = [e for e in self.execs if 'n' in e]
        for a in wf:
            for b in wf:
                if a is b:
                    continue
                oa, ob_ = self.obs_of(a['tid']), self.obs_of(b['tid'])
                na = self.v.nodes(oa)[self.node_of(a['tid'])]
                nb = self.v.nodes(ob_)[self.node_of(b['tid'])]
                xa = self._extra(a)
                xb = self._extra(b)
                if xa is None or xb is None or xa != xb:
                    continue
                if a['machine'] == b['machine'] and na[0] <= nb[0] and (na[1] or 0) <= (nb[1] or 0):
                    self.probe('mono_pairs')
                    if a['d'] > b['d'] + EPS:
                        self.viol('C06', 'not_monotone_in_work', '%s (%s) ran %s > %s (%s) ran %s on %s' % (
                            a['tid'], na, a['d'], b['tid'], nb, b['d'], a['machine']))
                if na == nb and self.v.cpu[a['machine']] <= self.v.cpu[b['machine']] \
                        and self.v.bw[a['machine']] <= self.v.bw[b['machine']]:
                    if a['d'] < b['d'] - EPS:
                        self.viol('C06', 'not_monotone_in_speed', '%s on slower %s ran %s < %s on %s ran %s' % (
                            a['tid'], a['machine'], a['d'], b['tid'], b['machine'], b['d']))

    def _nominal(self, e, n_):
        t = e['task']
        if self.pairing in ('dynamic', 'greedy') and not (t.flops > 0 or t.task_data > 0):
            return t.est_duration
        return n_

    def _extra(self, e):
        on = self.obs_of(e['tid'])
        inj = self.ob[on]['inj'].get(e['tid'])
        if inj is None:
            return 0
        if inj.calls:
            return inj.calls[-1][1] - inj.calls[-1][0]      # what the model actually added
        return None

    # ..................................................................... C08
    def _c08(self):
        v = self.v
        sc = self.sc
        snaps = self.snaps
        started = {}
        for n, L in self.ob.items():
            if L['start']:
                started[n] = L['start'][0]
        finished = {n: L['fin_t'][0] for n, L in self.ob.items() if L['fin_t']}
        bytime = {}
        for n, t in started.items():
            bytime.setdefault(t, []).append(n)
        for t, names in bytime.items():
            if t != int(t) or int(t) not in snaps:
                self.viol('C08', 'start_off_grid', '%s at %s' % (names, t))
                continue
            s = snaps[int(t)]
            use = s['tuse']
            avail = len(s['avail'])
            ning = len(s['ingest'])
            promised = 0
            # hot-buffer space already owed to observations that are still streaming in at S_t
            owed = sum(v.obs[n]['vol'] - s['dep'].get(n, 0) for n in self.obsnames if s['status'].get(n) == 'RUNNING')
            if len(names) > 1:
                self.probe('two_starts_same_step')
            for o in sc['obs']:
                n = o['name']
                w = v.obs[n]
                if started.get(n) == t:
                    if t < w['est'] - EPS:
                        self.viol('C08', 'started_before_planned_start', '%s at %s < %s' % (n, t, w['est']))
                    if w['demand'] > sc['arrays'] - use:
                        self.viol('C08', 'not_enough_arrays', '%s needs %s, %s free at t=%s' % (
                            n, w['demand'], sc['arrays'] - use, t))
                    if w['ingest'] > avail - promised:
                        self.viol('C08', 'not_enough_machines', '%s needs %s, %s available (%s promised) at t=%s' % (
                            n, w['ingest'], avail, promised, t))
                    if ning + promised + w['ingest'] > sc['max_ingest']:
                        self.viol('C08', 'ingest_limit_at_start', '%s: %s on ingest + %s promised + %s > %s' % (
                            n, ning, promised, w['ingest'], sc['max_ingest']))
                    if w['vol'] > s['hot'] + EPS or w['vol'] > s['cold'] + EPS:
                        self.viol('C08', 'no_buffer_room_at_start', '%s volume %s, hot free %s cold free %s' % (
                            n, w['vol'], s['hot'], s['cold']))
                    elif w['vol'] > s['hot'] - owed + EPS:
                        self.viol('C08', 'buffer_room_already_promised', '%s volume %s, hot free %s of which %s is owed to '
                                  'observations still being ingested or admitted in this pass' % (n, w['vol'], s['hot'], owed))
                    if s['hot'] < sc['hot']['capacity'] or avail < self.nM:
                        self.probe('start_under_load')
                    use += w['demand']
                    promised += w['ingest']
                    owed += w['vol']
                elif finished.get(n) == t:
                    use -= w['demand']
        # on time when idle
        for i, o in enumerate(sc['obs']):
            n = o['name']
            w = v.obs[n]
            t0 = math.ceil(w['est'])
            s0 = snaps.get(t0)
            if s0 is None:
                continue
            idle0 = (not s0['ingest'] and not s0['occ'] and not s0['idle'] and not s0['queue']
                     and s0['hot'] == sc['hot']['capacity'] and s0['cold'] == sc['cold']['capacity']
                     and s0['tuse'] == 0 and s0['held'] == 0 and s0['inflight'] == 0)
            # (structural idleness only: topsim's own pending-ingest counter is not consulted - a leaked count on an
            # otherwise idle system is exactly what must not postpone the observation)
            firstdue = all(not (v.obs[p['name']]['est'] <= t0 and s0['status'][p['name']] == 'WAITING')
                           for p in sc['obs'][:i])
            fits = (w['demand'] <= sc['arrays'] and w['ingest'] <= min(sc['max_ingest'], self.nM)
                    and w['vol'] < sc['hot']['capacity'] and w['vol'] <= sc['cold']['capacity']
                    and w['dur'] >= 1 and w['dur'] == int(w['dur']))
            if self.res.status in ('exc', 'hang') and self.res.T is not None and self.env.now <= t0:
                fits = False        # the run aborted in that very step (C05 / C07 report why)
            if idle0 and firstdue and fits and s0['status'][n] == 'WAITING':
                self.probe('due_while_idle')
                if started.get(n) != t0:
                    self.viol('C08', 'late_although_idle', '%s due %s on an idle system, started %s' % (
                        n, t0, started.get(n)))
        # ingest holds demand machines for the duration
        for n, L in self.ob.items():
            if not L['start']:
                continue
            hs = [h for h in self.holders if h['ingest'] and h['obs'] == n]
            w = v.obs[n]
            if self.res.status == 'ok' or L['fin_t']:
                if len(hs) != w['ingest']:
                    self.viol('C08', 'ingest_machine_count', '%s: %d machines on ingest, demand %d' % (
                        n, len(hs), w['ingest']))
            for h in hs:
                if h['exit'] is None:
                    continue
                held = h['exit'][0] - h['spawn'][0]
                if not (w['dur'] - 1 - EPS <= held <= w['dur'] + EPS):
                    self.viol('C08', 'ingest_hold_time', '%s held %s for %s steps, duration %s' % (
                        n, h['machine'], held, w['dur']))
                if h['spawn'][0] != L['start'][0]:
                    self.viol('C08', 'ingest_machines_late', '%s machine %s taken at %s, started %s' % (
                        n, h['machine'], h['spawn'][0], L['start'][0]))
            if L['fin_t'] and L['run_t']:
                if L['run_t'][0] != L['start'][0]:
                    self.viol('C08', 'running_not_at_start', n)
                if abs((L['fin_t'][0] - L['run_t'][0]) - w['dur']) > EPS:
                    self.viol('C08', 'observing_period', '%s was RUNNING from %s to %s, duration %s' % (
                        n, L['run_t'][0], L['fin_t'][0], w['dur']))
            elif L['run_t'] and not L['fin_t'] and self.res.status in ('ok', 'budget') \
                    and self.env.now > L['run_t'][0] + w['dur'] + 2:
                self.viol('C08', 'never_finished', '%s RUNNING since %s (duration %s), still not FINISHED at %s' % (
                    n, L['run_t'][0], w['dur'], self.env.now))

    # ..................................................................... C09
    def _c09_end(self):
        if self.pairing != 'batch':
            return
        for n, L in self.ob.items():
            on = L.get('res_on', [])
            off = L.get('res_off', [])
            if len(on) > 1:
                self.viol('C09', 'reserved_twice', '%s %s' % (n, on))
            if on and not off:
                self.viol('C09', 'reservation_not_released', n)
            if on and off:
                # released when the last task's machine was released (within the hand-over latency)
                last = max([h['exit'][0] for h in self.holders
                            if not h['ingest'] and h['obs'] == n and h['exit'] is not None] or [0])
                if off[0] < last - EPS:
                    self.viol('C09', 'released_before_last_task', '%s released %s, last task released %s' % (
                        n, off[0], last))
                if off[0] > last + 4:
                    self.viol('C09', 'released_late', '%s released %s, last task released %s' % (n, off[0], last))

    # .................................................................... C15b
    def _c15b(self):
        sim = self.sim
        flagged_done = False
        for e in self.execs:
            if e['ingest'] or e['exit'] is None:
                continue
            on = self.obs_of(e['tid'])
            if on not in self.ob:
                continue
            inj = self.ob[on]['inj'].get(e['tid'])
            if inj is None:
                continue
            t = e['task']
            added = None
            if inj.calls:
                base, newd = inj.calls[-1]
                added = newd > base
                if newd < base:
                    self.viol('C15', 'delay_model_shortened', '%s %s -> %s' % (e['tid'], base, newd))
            if added:
                self.probe('delayed_task')
                self.res.faults['F1'] += 1
                if not t.delay_flag:
                    self.viol('C15', 'delayed_task_not_flagged', e['tid'])
                if abs((t.aft - t.ast) - max(1, newd)) > EPS:
                    self.viol('C15', 'delayed_runtime', '%s ran %s, lengthened value %s' % (e['tid'], t.aft - t.ast, newd))
                h = e['holder']
                if h is not None and h['exit'] is not None:
                    e['delayed_done'] = h['exit']
                    flagged_done = True
        if flagged_done and self.res.status == 'ok':
            if sim.scheduler.schedule_status.value != 'DELAYED':
                self.viol('C15', 'schedule_not_reported_delayed', 'status %s at return' % sim.scheduler.schedule_status.value)

    # ................................................................ C18 (sim)
    def _c18_sim(self):
        v = self.v
        rate = min(v.hot_rate, v.cold_rate) if v.cold_rate > 0 else float('inf')     # real-time mode: one step
        for mv in self.moves:
            if mv['conc'] or any(s[3] > 1 for s in mv['steps']):
                self.probe('concurrent_moves')
                continue
            if mv['open'] or mv.get('ret') is None:
                continue
            size = mv['size']
            if mv['ret'] is False:
                if (mv['hot1'], mv['cold1']) != (mv['hot0'], mv['cold0']) or mv['lists1'] != mv['lists0']:
                    self.viol('C18', 'refused_move_changed_state', mv['dir'])
                continue
            hprev, cprev = mv['hot0'], mv['cold0']
            left = size
            nsteps = 0
            for (t, hf, cf, infl) in mv['steps']:
                dh, dc = hf - hprev, cf - cprev
                # other actors may deposit / free hot space in between; only cold is exclusive
                amt = -dc if mv['dir'] == 'h2c' else dc
                if amt > EPS:
                    nsteps += 1
                    want = min(rate, left)
                    if abs(amt - want) > EPS:
                        self.viol('C18', 'move_rate', '%s moved %s in a step, slower rate %s, left %s' % (
                            mv['dir'], amt, rate, left), site=mv['dir'])
                    left -= amt
                hprev, cprev = hf, cf
            if abs(left) > EPS:
                self.viol('C18', 'move_incomplete', '%s left %s of %s' % (mv['dir'], left, size))
            elif nsteps != (math.ceil(size / rate) if rate != float('inf') else (1 if size > 0 else 0)):
                self.viol('C18', 'move_steps', '%s took %d steps for %s at %s' % (mv['dir'], nsteps, size, rate))

    # ..................................................................... C12
    def _c12(self):
        df = self.sim.monitor.df
        T = int(self.env.now) if self.res.status != 'budget' else None
        nrows = len(df)
        if self.res.status == 'ok' and nrows != int(self.res.T):
            self.viol('C12', 'row_count', '%d rows for %s timesteps' % (nrows, self.res.T))
        cols = ['available_resources', 'ingest_resources', 'running_tasks', 'finished_tasks',
                'provisioned_observations', 'hot_buffer', 'cold_buffer', 'stored',
                'observations_waiting', 'observations_finished', 'scheduler_observation_queue']
        for c_ in cols:
            if c_ not in df.columns and nrows:
                self.viol('C12', 'missing_column', c_)
                return
        arr = {c_: list(df[c_]) for c_ in cols} if nrows else {}
        ss = list(df['schedule_status']) if nrows and 'schedule_status' in df.columns else None
        ingest_rows = 0
        for t in range(min(nrows, len(self.snaps))):
            s = self.snaps.get(t)
            if s is None:
                continue
            truth = {'available_resources': self.nM - s['held'],
                     'ingest_resources': len(s['ingest']),
                     'running_tasks': s['held'], 'finished_tasks': s['done'],
                     'provisioned_observations': len(s['idle']),
                     'hot_buffer': s['hot'], 'cold_buffer': s['cold'],
                     'stored': len(s['hstored']) + len(s['cstored']),
                     'observations_waiting': sum(1 for x in s['status'].values() if x == 'WAITING'),
                     'observations_finished': sum(1 for x in s['status'].values() if x == 'FINISHED'),
                     'scheduler_observation_queue': len(s['queue'])}
            if len(s['ingest']):
                ingest_rows += 1
            for k, want in truth.items():
                got = arr[k][t]
                if got != want:
                    self.viol('C12', 'row_untrue', 'row %d %s=%s, true %s' % (t, k, got, want), site=k)
            # free space also against the ledger of deposited data (the buffer's own figure is not the only truth:
            # the same conservation C07 checks after every event, here for what the row reports)
            if 'resident' in s:
                want = self.sim.buffer.hot[0].total_capacity + self.sim.buffer.cold[0].total_capacity - s['resident']
                got = arr['hot_buffer'][t] + arr['cold_buffer'][t]
                if abs(got - want) > EPS:
                    self.viol('C12', 'row_untrue', 'row %d hot_buffer+cold_buffer=%s, capacity minus resident data %s' % (
                        t, got, want), site='free_space_vs_ledger')
        self.probe('rows_checked', min(nrows, len(self.snaps)))
        # overlapping ingests with staggered ends
        ends = sorted({L['fin_t'][0] for L in self.ob.values() if L['fin_t']})
        iv = [(L['start'][0], L['fin_t'][0]) for L in self.ob.values() if L['start'] and L['fin_t']]
        if any(a < d and c < b and b != d for a, b in iv for c, d in iv if (a, b) != (c, d)):
            self.probe('staggered_overlapping_ingest')
        # C15: schedule reported delayed once a delayed task has completed
        if ss is not None:
            for e in self.execs:
                dd = e.get('delayed_done')
                if dd is None:
                    continue
                for t in range(int(dd[0]) + 3, nrows):
                    if ss[t] != 'DELAYED':
                        self.viol('C15', 'status_column_not_delayed', 'row %d is %s after %s completed at %s' % (
                            t, ss[t], e['tid'], dd[0]))
                        break

    # ..................................................................... C13
    def _c13(self, completed=True):
        # On a run that did not complete, the monitor has collected everything up to the step before
        # the last one; transitions older than that are checked, the rest ignored.
        horizon = None if completed else self.env.now - 1
        ev = self.sim.monitor.events
        rows = []
        if len(ev):
            for r in ev.to_dict('records'):
                rows.append((r.get('observation'), r.get('actor'), r.get('resource'), r.get('event'), r.get('time')))
        v = self.v
        for n, L in self.ob.items():
            got = {}
            for (o, a, rs, e, t) in rows:
                if o == n:
                    got.setdefault((a, rs, e), []).append(t)
            want = {('instrument', 'telescope', 'started'): L['start'],
                    ('instrument', 'telescope', 'finished'): L['fin_t'],
                    ('buffer', 'buffer', 'added'): [r.spawn[0] for r in L['stream']],
                    ('buffer', 'buffer', 'removed'): L['freed'],
                    ('scheduler', 'queue', 'added'): L['q_on'],
                    ('scheduler', 'queue', 'removed'): L['q_off'],
                    ('scheduler', 'allocation', 'started'): L['at_spawn'],
                    ('scheduler', 'allocation', 'stopped'): L['q_off']}
            for k, times in want.items():
                g = got.get(k, [])
                if len(times) != 1:
                    continue        # life-cycle itself broken (or not reached yet): C04/C08 report that
                if horizon is not None and times[0] >= horizon:
                    continue
                if len(g) != 1:
                    self.viol('C13', 'event_count', '%s %s: %d entries, expected 1 at t=%s' % (
                        n, '/'.join(k), len(g), times[0]), site='/'.join(k[1:]) + (':missing' if not g else ':dup'))
                elif g[0] != times[0]:
                    self.viol('C13', 'event_time', '%s %s stamped %s, happened at %s' % (
                        n, '/'.join(k), g[0], times[0]), site='/'.join(k[1:]))
            def one(k):
                g = got.get(k, [])
                return g[0] if len(g) == 1 else None
            st, fi = one(('instrument', 'telescope', 'started')), one(('instrument', 'telescope', 'finished'))
            qa, qr = one(('scheduler', 'queue', 'added')), one(('scheduler', 'queue', 'removed'))
            a0, a1 = one(('scheduler', 'allocation', 'started')), one(('scheduler', 'allocation', 'stopped'))
            ba, br = one(('buffer', 'buffer', 'added')), one(('buffer', 'buffer', 'removed'))
            if st is not None and fi is not None and fi - st != v.obs[n]['dur']:
                self.viol('C13', 'finished_minus_started', '%s: %s - %s != duration %s' % (n, fi, st, v.obs[n]['dur']))
            chain = [st, qa, a0, a1, qr]
            if all(x is not None for x in chain):
                if not (st <= qa <= a0 <= a1 <= qr):
                    self.viol('C13', 'causal_order', '%s: started %s, queue added %s, allocation %s..%s, queue removed %s' % (
                        n, st, qa, a0, a1, qr))
                else:
                    self.probe('causal_chains_checked')
            if ba is not None and st is not None and ba != st:
                self.viol('C13', 'buffer_added_not_at_start', '%s: %s vs %s' % (n, ba, st))
            if br is not None and a1 is not None and br != a1:
                self.viol('C13', 'buffer_removed_not_at_allocation_stopped', '%s: %s vs %s' % (n, br, a1))
        # a run that completed went through every transition of every observation: each must be in the log once,
        # whatever the ledger saw
        if completed and self.res.status == 'ok' and not self.adv:
            kinds8 = [('instrument', 'telescope', 'started'), ('instrument', 'telescope', 'finished'),
                      ('buffer', 'buffer', 'added'), ('buffer', 'buffer', 'removed'),
                      ('scheduler', 'queue', 'added'), ('scheduler', 'queue', 'removed'),
                      ('scheduler', 'allocation', 'started'), ('scheduler', 'allocation', 'stopped')]
            for n in self.ob:
                for k in kinds8:
                    c_ = sum(1 for (o, a, rs, e, t) in rows if o == n and (a, rs, e) == k)
                    if c_ != 1:
                        self.viol('C13', 'event_count', '%s %s: %d entries in the log of a completed run' % (n, '/'.join(k), c_),
                                  site='/'.join(k[1:]) + (':missing' if c_ == 0 else ':dup'))
        # no entry for an unknown observation / unknown kind duplicated
        known = set(self.ob)
        for (o, a, rs, e, t) in rows:
            if o not in known:
                self.viol('C13', 'unknown_observation_in_log', o)

    # ..................................................... C01 (recorded times)
    def _c01_recorded(self):
        # Recorded [ast, aft) windows on one machine may touch by at most one timestep: the shipped
        # poll order releases a machine at aft-1 for runtimes >= 3 (DESIGN C01).  Anything beyond
        # that means a machine was handed on while its task was, by its own record, still executing.
        bym = {}
        for e in self.execs:
            t = e['task']
            if e['exit'] is None or t.aft == -1 or t.ast == -1:
                continue
            bym.setdefault(e['machine'], []).append((t.ast, t.aft, e['tid']))
        for m, lst in bym.items():
            lst.sort()
            for i in range(len(lst)):
                for j in range(i + 1, len(lst)):
                    a, b = lst[i], lst[j]
                    if b[0] >= a[1]:
                        break
                    ov = min(a[1], b[1]) - b[0]
                    if ov > 1 + EPS:
                        self.viol('C01', 'recorded_executions_overlap', '%s: %s [%s,%s) and %s [%s,%s) overlap by %s steps' % (
                            m, a[2], a[0], a[1], b[2], b[0], b[1], ov))

    def _probes(self):
        res = self.res
        if self.maxconc >= 2:
            self.probe('concurrent_executions')
        # machine hand-over within one step: a machine released and re-used at the same instant
        last = {}
        for e in sorted(self.execs, key=lambda x: x['spawn'][1]):
            m = e['machine']
            if m in last and last[m]['holder'] is not None and last[m]['holder']['exit'] is not None \
                    and last[m]['holder']['exit'][0] == e['spawn'][0]:
                self.probe('same_step_handover')
            last[m] = e
        if len({self.obs_of(e['tid']) for e in self.execs if not e['ingest']}) >= 2:
            self.probe('multi_workflow')
        ing = [(h['spawn'][0], h['exit'][0] if h['exit'] else 1e18) for h in self.holders if h['ingest']]
        wf = [(h['spawn'][0], h['exit'][0] if h['exit'] else 1e18) for h in self.holders if not h['ingest'] and h['entered']]
        if any(a < d and c < b for a, b in ing for c, d in wf):
            self.probe('ingest_overlaps_workflow')
        if res.status == 'ok':
            self.probe('completed')
        for n, L in self.ob.items():
            w = self.v.obs[n]
            if L['start'] and L['start'][0] > math.ceil(w['est']):
                self.probe('observation_postponed')
