"""Build a real topsim ``Simulation`` from a scenario and run it under
``VerifEnv`` with the configured faults (DESIGN §2.3).

Real code: everything in topsim.  Fakes: the ``shadow`` package (static
planner) and, in 'light' monitor mode, ``Monitor.collate_actor_dataframes``.
"""
import collections
import contextlib
import copy
import io
import json
import os
import random
import sys
import traceback
import warnings

os.environ.setdefault('TQDM_DISABLE', '1')
warnings.filterwarnings('ignore')

_HERE = os.path.dirname(os.path.abspath(__file__))
_FAKES = os.path.join(_HERE, 'fakes')
if _FAKES not in sys.path:
    sys.path.insert(0, _FAKES)
if 'shadow' in sys.modules and not getattr(sys.modules['shadow'], 'CFG', None):
    for k in [k for k in sys.modules if k == 'shadow' or k.startswith('shadow.')]:
        del sys.modules[k]

import networkx as nx           # noqa: E402
import pandas as pd             # noqa: E402
import shadow                   # noqa: E402  (the fake)

from topsim.core.simulation import Simulation          # noqa: E402
from topsim.core.monitor import Monitor                # noqa: E402
from topsim.core.delay import DelayModel               # noqa: E402
from topsim.core import scheduler as _sched_mod        # noqa: E402
from topsim.user.telescope import Telescope            # noqa: E402
from topsim.user.plan.batch_planning import BatchPlanning      # noqa: E402
from topsim.user.plan.static_planning import SHADOWPlanning    # noqa: E402
from topsim.user.schedule.batch_allocation import BatchProcessing      # noqa: E402
from topsim.user.schedule.queue_allocation import QueueProcessing      # noqa: E402
from topsim.user.schedule.dynamic_plan import DynamicSchedulingFromPlan  # noqa: E402
from topsim.user.schedule.greedy import GreedySchedulingFromPlan       # noqa: E402
from topsim.algorithms.scheduling import Scheduling    # noqa: E402
from topsim.core.machine import Machine                # noqa: E402
from topsim.core.task import TaskStatus                # noqa: E402

from .env import VerifEnv, BudgetExceeded              # noqa: E402
from .scenario import StepView, serial_bound, unit_factor, node_label   # noqa: E402

_REAL_COLLATE = Monitor.collate_actor_dataframes


class FakeTime(object):
    """Replaces ``topsim.core.scheduler.time``: a counter, not a clock."""

    def __init__(self):
        self.n = 0

    def time(self):
        self.n += 1
        return float(self.n)


class InjectedDelay(DelayModel):
    """Fault kind F1: per-task extra steps through the ``task.delay`` seam."""

    def __init__(self, extra=0):
        super().__init__(0.0, 'normal', DelayModel.DelayDegree.LOW)
        self.extra = extra
        self.calls = []

    def generate_delay(self, task_runtime, n=100):
        # same contract as the real model (property C15): a zero runtime is returned unchanged
        ret = task_runtime + (self.extra if task_runtime > 0 else 0)
        self.calls.append((task_runtime, ret))
        return ret


class RecordingDelay(object):
    """Wraps the real DelayModel of a task; records (runtime, result)."""

    def __init__(self, inner):
        self.inner = inner
        self.calls = []
        self.degree = inner.degree
        self.prob = inner.prob
        self.dist = inner.dist
        self.seed = inner.seed

    def __str__(self):
        return str(self.inner)

    def generate_delay(self, task_runtime, n=100):
        r = self.inner.generate_delay(task_runtime, n)
        self.calls.append((task_runtime, r))
        return r


class FaultSched(Scheduling):
    """Fault kinds F2 (adversarial proposals) and F3 (stalled rounds) around a
    shipped scheduling algorithm."""

    def __init__(self, inner, adv=None, stalls=None, explicit=None, norelease=False, ontime=False, copies=False):
        super().__init__()
        self.inner = inner
        self.ontime = ontime
        self.copies = copies
        self.norelease = norelease      # a user algorithm that leaves the release of its reservation to the Scheduler
        self.adv = adv
        self.rng = random.Random('adv/%s' % adv['seed']) if adv else None
        self.stalls = {k: set(v) for k, v in (stalls or {}).items()}
        self.round = collections.Counter()
        self.fired = collections.Counter()
        self.injected = []          # (clock, obs, task id, kind, machine id)
        self.stalled = 0
        self.explicit = explicit    # list of [round-key, task node, kind] for replay
        self.ghost = Machine('ghost', 10, 1, 1, 10)

    def __repr__(self):
        return repr(self.inner)

    def to_df(self):
        return self.inner.to_df()

    def run(self, cluster, clock, workflow_plan, existing_schedule, task_pool):
        oid = workflow_plan.id
        rnd = self.round[oid]
        self.round[oid] += 1
        if rnd in self.stalls.get(oid, ()) and len(workflow_plan.tasks) > 0:
            self.stalled += 1
            self.fired['F3'] += 1
            return copy.copy(existing_schedule), workflow_plan.status, task_pool
        if self.norelease:
            # "The clean-up of resources is completed by the Scheduler once all Task objects in the WorkflowPlan
            # have finished running, and requires no additional code on behalf of the user" (Cluster docstring)
            cluster.release_batch_resources = lambda *a, **k: self.fired.update({'norelease': 1})
            try:
                alloc, status, pool = self.inner.run(cluster, clock, workflow_plan,
                                                     existing_schedule, task_pool)
            finally:
                del cluster.release_batch_resources
        else:
            alloc, status, pool = self.inner.run(cluster, clock, workflow_plan,
                                                 existing_schedule, task_pool)
        if self.copies:
            # equal (same id) but not identical Machine objects, as an algorithm that works on copies would return
            for t_ in list(alloc):
                if t_ not in existing_schedule:
                    alloc[t_] = copy.copy(alloc[t_])
                    self.fired['copies'] += 1
        if self.ontime:
            from topsim.core.planner import WorkflowStatus as _WS
            if status is _WS.SCHEDULED:
                status = _WS.ON_TIME        # a documented member of the status enum no shipped algorithm uses
                self.fired['ontime'] += 1
        if not self.adv:
            return alloc, status, pool
        r = cluster._resources
        rng = self.rng
        for t in sorted(alloc, key=lambda x: x.id):
            if t in existing_schedule:
                continue
            if rng.random() >= self.adv['rate']:
                continue
            k = rng.choice(self.adv['kinds'])
            new = None
            if k == 'busy' and r['occupied']:
                new = rng.choice(r['occupied'])
            elif k == 'ingest' and r['ingest']:
                new = rng.choice(r['ingest'])
            elif k == 'dup' and len(alloc) > 1:
                other = [m for x, m in sorted(alloc.items(), key=lambda kv: kv[0].id) if x is not t]
                new = rng.choice(other)
            elif k == 'free' and r['available']:
                # legal but unusual: a machine of the free pool although the algorithm holds a reservation
                used = set(id(m) for m in alloc.values())
                cand = [m for m in r['available'] if id(m) not in used]
                if cand:
                    new = rng.choice(cand)
            elif k == 'foreign':
                f = [m for o in sorted(r['idle']) if o != oid for m in r['idle'][o]]
                if f:
                    new = rng.choice(f)
            elif k == 'unknown':
                new = self.ghost
            if new is not None:
                alloc[t] = new
                self.fired[k] += 1
                self.injected.append((clock, oid, t.id, k, new.id))
        if 'steal' in self.adv['kinds'] and rng.random() < self.adv['rate']:
            # an algorithm that holds no reservation of its own and helps itself to a machine that sits idle in
            # another observation's reservation (must be rejected with an error, never executed)
            f = [m for o in sorted(r['idle']) if o != oid for m in r['idle'][o]]
            try:
                from topsim.core.task import TaskStatus as _TS
                ready = [t for t in sorted(workflow_plan.tasks, key=lambda x: x.id)
                         if t.task_status is _TS.UNSCHEDULED and t not in alloc
                         and all(cluster.is_task_finished(p_) for p_ in workflow_plan.graph.predecessors(t))]
            except Exception:
                ready = []
            if f and ready and oid not in r['idle']:
                t = ready[0]
                alloc[t] = rng.choice(f)
                self.fired['steal'] += 1
                self.injected.append((clock, oid, t.id, 'foreign', alloc[t].id))
        if 'resched' in self.adv['kinds'] and rng.random() < self.adv['rate']:
            done = [t for t in sorted(cluster._tasks['finished'], key=lambda x: x.id)
                    if t.id.startswith(oid + '_') and 'ingest' not in t.id]
            ms = r['available'] + r['idle'].get(oid, [])
            if done and ms:
                t = rng.choice(done)
                if t not in alloc:
                    alloc[t] = rng.choice(ms)
                    self.fired['resched'] += 1
                    self.injected.append((clock, oid, t.id, 'resched', alloc[t].id))
        return alloc, status, pool


_KEEP = 6


def _content_dir(sc, d):
    """One sub-directory per distinct configuration content.  A configuration that is simulated again in the same
    interpreter (second run of C10, every pause point of C11, the paired runs of C16) is read from the *same,
    unchanged* files, as an experiment loop over one configuration file would do; older ones are pruned."""
    import hashlib
    import shutil
    key = json.dumps({k: sc.get(k) for k in ('unit', 'explicit_unit', 'machines', 'machine_order', 'cluster_header', 'pipeline_order', 'arrays', 'max_ingest',
                                             'hot', 'cold', 'obs', 'wfs')}, sort_keys=True)
    sub = os.path.join(d, 'cfg-' + hashlib.sha1(key.encode()).hexdigest()[:16])
    if os.path.isdir(sub) and os.path.exists(os.path.join(sub, 'cfg.json')):
        os.utime(sub, None)
        return sub, True
    old = sorted((x for x in os.listdir(d) if x.startswith('cfg-')), key=lambda x: os.path.getmtime(os.path.join(d, x)))
    for x in old[:max(0, len(old) - _KEEP + 1)]:
        shutil.rmtree(os.path.join(d, x), ignore_errors=True)
    os.makedirs(sub, exist_ok=True)
    return sub, False


def write_files(sc, d):
    d, present = _content_dir(sc, d)
    if present:
        return os.path.join(d, 'cfg.json')
    for i, wf in enumerate(sc['wfs']):
        g = nx.DiGraph()
        for (n, comp, data) in wf['nodes']:
            if data is None:
                g.add_node(node_label(wf, n), comp=comp)
            else:
                g.add_node(node_label(wf, n), comp=comp, task_data=data)
        for (u, v, vol) in wf['edges']:
            g.add_edge(node_label(wf, u), node_label(wf, v), transfer_data=vol)
        with open(os.path.join(d, 'wf%d.json' % i), 'w') as fp:
            json.dump({'header': {'generator': 'verif'}, 'graph': nx.node_link_data(g)}, fp)
    pipelines = {}
    obs = []
    for o in sc['obs']:
        pipelines[o['name']] = {'workflow': 'wf%d.json' % o['wf'], 'ingest_demand': o['ingest_demand']}
        obs.append({'name': o['name'], 'start': o['start'], 'duration': o['duration'],
                    'instrument_demand': o['instrument_demand'],
                    'data_product_rate': o['data_product_rate']})
        for key in ('min_workflow_resources', 'max_workflow_resources'):     # optional, legal, parsed
            if o.get(key) is not None:
                obs[-1][key] = o[key]
    resources = sc['machines']
    if sc.get('machine_order'):
        resources = {m: sc['machines'][m] for m in sc['machine_order'] if m in sc['machines']}
        resources.update({m: v for m, v in sc['machines'].items() if m not in resources})
    # the pipelines dictionary need not be in the order of the observation list, and may hold a pipeline no
    # observation uses
    po = sc.get('pipeline_order')
    if po == 'reversed':
        pipelines = dict(reversed(list(pipelines.items())))
    elif po == 'extra':
        pipelines = dict([('unusedpipeline', {'workflow': 'wf0.json', 'ingest_demand': 1})] + sorted(pipelines.items()))
    cfg = {'instrument': {'telescope': {'total_arrays': sc['arrays'],
                                        'max_ingest_resources': sc['max_ingest'],
                                        'pipelines': pipelines, 'observations': obs}},
           'cluster': {'header': sc.get('cluster_header') or {}, 'system': {'resources': resources,
                                                'system_bandwidth': 1.0}},
           'buffer': {'hot': sc['hot'], 'cold': sc['cold']}}
    if sc['unit'] != 'seconds' or sc.get('explicit_unit'):
        cfg['timestep'] = sc['unit']
    path = os.path.join(d, 'cfg.json')
    with open(path, 'w') as fp:
        json.dump(cfg, fp)
    return path


def make_delay_model(spec):
    if not spec:
        return None
    seed = spec['seed']
    if spec.get('np_seed'):
        import numpy
        seed = numpy.int64(seed)        # a seed taken from a numpy array (a parameter sweep) is as legal as an int
    return DelayModel(spec['prob'], spec['dist'],
                      DelayModel.DelayDegree[spec['degree']], seed)


def build(sc, d, env, monitor=None):
    """Returns (sim, fault_sched_or_None)."""
    cfg = write_files(sc, d)
    shadow.CFG.clear()
    shadow.CFG.update(sc.get('static') or {'seed': 0, 'style': 'rr'})
    _sched_mod.time = FakeTime()
    mode = monitor or sc.get('monitor', 'light')
    if mode == 'light':
        Monitor.collate_actor_dataframes = lambda self: pd.DataFrame()
    else:
        Monitor.collate_actor_dataframes = _REAL_COLLATE
    f = sc.get('faults') or {}
    dm = make_delay_model(f.get('delay_model'))
    p = sc['pairing']
    ap = sc.get('alg_params') or {}
    if p == 'batch':
        split = ap.get('resource_split')
        if split:
            split = {k: tuple(v) for k, v in split.items()}
        alg = BatchProcessing(max_resource_partitions=ap['max_resource_partitions'],
                              min_resources_per_workflow=ap['min_resources_per_workflow'],
                              resource_split=split)
        plan = BatchPlanning('batch', dm)
    elif p == 'queue':
        alg = QueueProcessing()
        plan = BatchPlanning('batch', dm)
    elif p == 'dynamic':
        alg = DynamicSchedulingFromPlan()
        plan = SHADOWPlanning('heft', dm)
    elif p == 'greedy':
        alg = GreedySchedulingFromPlan()
        plan = SHADOWPlanning('heft', dm)
    else:
        raise ValueError(p)
    fs = None
    if f.get('adv') or f.get('stalls') or f.get('norelease') or f.get('ontime_status') or f.get('copy_machines'):
        fs = FaultSched(alg, f.get('adv'), f.get('stalls'), norelease=bool(f.get('norelease')) and p == 'batch',
                        ontime=bool(f.get('ontime_status')), copies=bool(f.get('copy_machines')))
        alg = fs
    sim = Simulation(env, cfg, Telescope, planning_model=plan,
                     planning_algorithm=plan.algorithm, scheduling=alg,
                     delay=dm, timestamp=0)
    env.sim = sim
    return sim, fs


def exc_site(e):
    """(type name, raising function, file basename) of the original error."""
    c = e.__cause__ or e
    tb = traceback.extract_tb(c.__traceback__)
    fr = tb[-1] if tb else None
    # innermost frame that belongs to topsim (skip numpy / simpy frames)
    for x in reversed(tb):
        if '/topsim/' in x.filename:
            fr = x
            break
    if fr is None:
        return (type(c).__name__, '?', '?')
    return (type(c).__name__, fr.name, os.path.basename(fr.filename))


class WallTimeout(BaseException):
    """Raised by SIGALRM inside a run that makes no simulated progress."""


def _alarm(signum, frame):
    raise WallTimeout()


HANG_LIMIT_S = float(os.environ.get('VERIF_HANG_S', 90))


class Result(object):
    def __init__(self):
        self.status = None          # 'ok' | 'budget' | 'exc'
        self.exc = None             # (type, func, file, msg)
        self.T = None
        self.violations = []
        self.probes = collections.Counter()
        self.faults = collections.Counter()
        self.digest = ''
        self.nevents = 0
        self.df = None
        self.tasks = None
        self.events = None
        self.bound = None
        self.perm_trace = {}
        self.states = set()
        self.stuck = None


def run_scenario(sc, d, oracle_cls=None, pauses=None, monitor=None, budget=None,
                 want_tables=False, digest=True, until=None):
    """Run one scenario to completion (or ``until``) and return a Result."""
    from . import oracles as _or
    f = sc.get('faults') or {}
    perm = f.get('perm') or {}
    extra_delay = sum((f.get('delays') or {}).values())
    extra_stall = sum(len(v) for v in (f.get('stalls') or {}).values())
    res = Result()
    if budget is None:
        budget = serial_bound(sc, extra_delay, extra_stall)
    res.bound = budget
    env = VerifEnv(budget=budget, perm_seed=perm.get('seed'),
                   perm_explicit=perm.get('explicit'), digest=digest)
    out = io.StringIO()
    with contextlib.redirect_stdout(out):
        sim, fs = build(sc, d, env, monitor)
        orc = (oracle_cls or _or.Oracle)(sc, sim, env, fs, res)
        env.hooks = orc
        import signal
        import threading
        use_alarm = threading.current_thread() is threading.main_thread()
        if use_alarm:
            old_handler = signal.signal(signal.SIGALRM, _alarm)
            # periodic: SimPy absorbs the first exception into a failed process and carries on with the
            # next event of the instant, which may spin as well
            signal.setitimer(signal.ITIMER_REAL, HANG_LIMIT_S, HANG_LIMIT_S / 4)
        try:
            segs = list(pauses if pauses is not None else f.get('pauses') or [])
            if segs:
                sim.start(runtime=segs[0])
                orc.on_pause(segs[0])
                for k in segs[1:]:
                    sim.resume(k)
                    orc.on_pause(k)
            if until is not None:
                env.budget = max(env.budget, until + 1)
                if not segs:
                    sim.start(runtime=until)
                else:
                    if env.now < until:
                        sim.resume(until)
                    sim.monitor.collate_events()        # what start(runtime) does once more on return
                res.df, res.tasks = sim.monitor.df, sim._generate_final_task_data()
            elif segs:
                while not sim.is_finished():
                    sim.resume(env.now + 1)
                sim.monitor.collate_events()
                res.df, res.tasks = sim.monitor.df, sim._generate_final_task_data()
            else:
                res.df, res.tasks = sim.start()
                if f.get('overrun'):
                    # keep the clock running after completion: the table still gets one row per timestep
                    res.T_done = env.now
                    env.budget = env.now + f['overrun'] + 1
                    sim.resume(env.now + f['overrun'])
                    sim.monitor.collate_events()
                    res.df = sim.monitor.df
            res.status = 'ok'
        except BudgetExceeded:
            res.status = 'budget'
        except WallTimeout as e:
            res.status = 'hang'
            tb = traceback.extract_tb(e.__traceback__)
            fr = [x for x in tb if '/topsim/' in x.filename]
            res.exc = ('WallTimeout', fr[-1].name if fr else '?', os.path.basename(fr[-1].filename) if fr else '?',
                       'no return after %.0f s of wall time at simulated t=%s' % (HANG_LIMIT_S, env.now))
        except Exception as e:      # noqa
            c = e.__cause__ or e
            tbl = traceback.extract_tb(c.__traceback__)
            if tbl and os.path.dirname(os.path.abspath(tbl[-1].filename)) == _HERE:
                # raised by the harness' own hooks/oracles, not by topsim: never a verdict
                raise RuntimeError('harness code raised inside the run: %s: %s at %s:%s' % (
                    type(c).__name__, c, os.path.basename(tbl[-1].filename), tbl[-1].lineno)) from c
            res.status = 'exc'
            site = exc_site(e)
            res.exc = site + (str(e.__cause__ or e)[:120],)
        finally:
            if use_alarm:
                signal.setitimer(signal.ITIMER_REAL, 0)
                signal.signal(signal.SIGALRM, old_handler)
        res.T = env.now
        res.nevents = env.nevents
        res.digest = env.digest()
        res.perm_trace = dict(env.perm_trace)
        if env.perm_changed:
            res.faults['F4'] += env.perm_changed
        if fs is not None:
            res.faults.update({('F3' if k == 'F3' else 'F9:' + k if k in ('norelease', 'ontime', 'copies') else 'F2:' + k): v for k, v in fs.fired.items()})
        try:
            orc.finish()
        except Exception as e:      # oracle crash = harness error, never a violation
            res.harness_error = 'oracle: %s\n%s' % (e, traceback.format_exc())
            raise
        if want_tables:
            res.events = sim.monitor.events
            res.mdf = sim.monitor.df
        res.sim = sim
        res.env = env
    return res
