import json
import networkx as nx


class Task(object):
    def __init__(self, tid, flops, io):
        self.tid = tid
        self.flops_demand = flops
        self.io_demand = io

    def __hash__(self):
        return hash(self.tid)

    def __eq__(self, o):
        return isinstance(o, Task) and o.tid == self.tid

    def __repr__(self):
        return str(self.tid)


class Environment(object):
    def __init__(self, cfg, dictionary=False):
        self.machines = cfg['system']['resources']


class Workflow(object):
    def __init__(self, path):
        with open(path) as fp:
            g = nx.node_link_graph(json.load(fp)['graph'])
        m = {n: Task(n, g.nodes[n].get('comp', 0), g.nodes[n].get('task_data', 0))
             for n in g.nodes}
        self.graph = nx.relabel_nodes(g, m)
        self.env = None

    def add_environment(self, env):
        self.env = env
