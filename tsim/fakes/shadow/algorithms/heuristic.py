import random
import networkx as nx
import shadow


class _M(object):
    def __init__(self, id):
        self.id = id


class _A(object):
    def __init__(self, ast, aft, m):
        self.ast = ast
        self.aft = aft
        self.machine = _M(m)


class _S(object):
    pass


def _plan(wf):
    cfg = shadow.CFG
    ms = wf.env.machines
    names = sorted(ms)
    rng = random.Random('%s/%s' % (cfg.get('seed', 0), len(wf.graph)))
    style = cfg.get('style', 'rr')
    free = {m: 0 for m in names}
    alloc = {}
    order = sorted(nx.topological_sort(wf.graph), key=lambda t: 0)  # stable topo order
    for i, t in enumerate(order):
        ready = max([alloc[p].aft for p in wf.graph.predecessors(t)] + [0])

        def dur(m):
            return max(1, int(t.flops_demand / ms[m]['flops']))
        if style == 'single':
            m = names[cfg.get('seed', 0) % len(names)]
        elif style == 'rr':
            m = names[(i + cfg.get('seed', 0)) % len(names)]
        elif style == 'random':
            m = rng.choice(names)
        else:  # 'eft': HEFT-like earliest finish
            m = min(names, key=lambda x: (max(ready, free[x]) + dur(x), x))
        st = max(ready, free[m])
        alloc[t] = _A(st, st + dur(m), m)
        free[m] = st + dur(m)
    s = _S()
    s.task_allocations = alloc
    s.makespan = max(a.aft for a in alloc.values())
    s.execution_order = [t.tid for t in sorted(alloc, key=lambda t: (alloc[t].ast, str(t.tid)))]
    return s


def heft(wf):
    return _plan(wf)


def pheft(wf):
    return _plan(wf)


def fcfs(wf):
    return _plan(wf)
