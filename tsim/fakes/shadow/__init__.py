"""In-process FAKE of the external SHADOW static-scheduling library.

The real library is not installed in this sandbox (an unrelated package of the
same name is).  topsim's real ``SHADOWPlanning`` runs on top of this fake; the
planners below are seeded list schedulers that emit *valid* static plans
(every task on a cluster machine, precedence and machine exclusivity
respected).  ``CFG`` is set by the harness before each run.
"""
CFG = {'seed': 0, 'style': 'rr'}
