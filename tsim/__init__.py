"""Deterministic simulation + fault injection harness for top-sim/topsim.

See /verif/DESIGN.md.  Everything here runs with /venv/bin/python and
PYTHONPATH=/repo (topsim is imported from the working tree, never installed).
"""
