"""Operation-sequence machines on the real ``Cluster`` and ``Buffer`` actors
(DESIGN §2.7): seeded sequences of public calls, including illegal ones (F8),
interleaved with time advance, checked after every operation *and* every
SimPy event against a small executable reference model.

A case is ``{'kind': 'cluster_ops'|'buffer_ops', 'cfg': {...}, 'ops': [...]}``
— JSON, replayable, shrinkable by dropping ops.
"""
import collections
import contextlib
import io
import json
import math
import os
import random

from . import sut  # noqa: F401  (sys.path for fakes, warnings, TQDM)
from .env import VerifEnv
from topsim.core.config import Config
from topsim.core.cluster import Cluster
from topsim.core.buffer import Buffer
from topsim.core.instrument import Observation, RunStatus
from topsim.core.task import Task
from topsim.core.machine import Machine

EPS = 1e-6


def _start(machine, gen):
    """env.process(gen), run its initialisation, and surface a failure of the
    process as an exception (the way ``env.run`` would a few events later)."""
    p = machine.env.process(gen)
    machine.settle()
    if p.triggered and not p.ok:
        p.defused = True
        raise p.value
    return p


def _write_cfg(d, cfg):
    path = os.path.join(d, 'opcfg.json')
    full = {'timestep': cfg.get('timestep', 'seconds'),
            'instrument': {'telescope': {'total_arrays': 1, 'max_ingest_resources': 1,
                                         'pipelines': {}, 'observations': []}},
            'cluster': {'header': {}, 'system': {'resources': cfg['machines'], 'system_bandwidth': 1.0}},
            'buffer': {'hot': cfg.get('hot', {'capacity': 100, 'max_ingest_rate': 10}),
                       'cold': cfg.get('cold', {'capacity': 100, 'max_data_rate': 10})}}
    with open(path, 'w') as fp:
        json.dump(full, fp)
    return path


class OpResult(object):
    def __init__(self):
        self.violations = []
        self.probes = collections.Counter()
        self.faults = collections.Counter()
        self.nevents = 0
        self.T = 0
        self.states = set()
        self.digest = ''
        self.status = 'ok'
        self.exc = None
        self._seen = set()

    def viol(self, prop, clause, msg, site='', t=None, seq=None):
        key = (prop, clause, site)
        if key in self._seen:
            return
        self._seen.add(key)
        self.violations.append(dict(prop=prop, clause=clause, site=site, msg=str(msg)[:300], t=t, seq=seq))


# =========================================================================
#                                CLUSTER
# =========================================================================
def gen_cluster_case(seed, depth=12, maxm=4):
    rng = random.Random('clops/%s' % seed)
    nm = rng.randint(1, maxm)
    machines = {'m%d' % i: {'flops': rng.choice([5, 10]), 'compute_bandwidth': 5} for i in range(nm)}
    obsn = ['a', 'b', 'c']
    ops = []
    n = rng.randint(3, depth)
    for _ in range(n):
        k = rng.choices(['prov_batch', 'release', 'prov_ingest', 'alloc', 'advance', 'check_ingest', 'dup_task'],
                        [14, 12, 14, 34, 18, 5, 3])[0]
        if k == 'prov_batch':
            ops.append(['prov_batch', rng.randint(1, nm + 1), rng.choice(obsn)])
        elif k == 'release':
            ops.append(['release', rng.choice(obsn)])
        elif k == 'prov_ingest':
            ops.append(['prov_ingest', rng.randint(1, nm + 1), rng.choice(['x', 'y', 'z']), rng.randint(1, 4),
                        rng.random() < 0.75])
        elif k == 'alloc':
            ops.append(['alloc', rng.choice(['available', 'own', 'foreign', 'busy', 'ingest', 'ghost']),
                        rng.choice(obsn + [None]), rng.randint(0, 4), rng.randint(0, 5)])
        elif k == 'advance':
            ops.append(['advance', rng.randint(1, 4)])
        elif k == 'check_ingest':
            ops.append(['check_ingest', rng.randint(1, nm + 1), rng.randint(1, nm)])
        else:
            ops.append(['dup_task', rng.randint(0, 5)])
    return {'kind': 'cluster_ops', 'cfg': {'machines': machines}, 'ops': ops}


class ClusterMachine(object):
    """Drives the real Cluster and mirrors it in a reference model:
    ``state[mid]`` in {'available','ingest','occupied',('idle',obs)} plus the
    holder ledger taken from the spawn log."""

    def __init__(self, case, d):
        self.case = case
        self.res = OpResult()
        self.env = VerifEnv()
        self.env.hooks = self
        cfg = Config(_write_cfg(d, case['cfg']))
        self.cluster = Cluster(self.env, cfg)
        self.M = [m.id for m in self.cluster.machines]
        self.state = {m: 'available' for m in self.M}
        self.owner = {}                 # machine -> obs on whose behalf it is occupied
        self.holders = {}               # rec -> dict
        self.open_exec = collections.defaultdict(list)
        self.completed = 0
        self.ntask = 0
        self.in_op = False
        self.pending_done = []
        self.ghost = Machine('ghost', 10, 1, 1, 5)
        self.resv = set()

    # ---- hooks from VerifEnv
    def on_spawn(self, rec):
        if rec.name == 'allocate_task_to_cluster':
            self.holders[rec] = dict(task=rec.loc['task'], machine=rec.loc['machine'].id,
                                     obs=rec.loc.get('observation'), ingest=bool(rec.loc.get('ingest')),
                                     entered=False, rec=rec)
        elif rec.name == 'do_work':
            h = self.holders.get(rec.parent)
            mid = rec.loc['machine'].id
            if self.open_exec[mid]:
                self.res.viol('C01', 'two_open_executions', 'machine %s starts %s while %s executing' % (
                    mid, rec.loc['self'].id, self.open_exec[mid][0].loc['self'].id), t=self.env.now)
            self.open_exec[mid].append(rec)
            if h is not None:
                h['entered'] = True

    def on_resume(self, rec):
        pass

    def on_exit(self, rec):
        if rec.name == 'do_work':
            mid = rec.loc['machine'].id
            if rec in self.open_exec[mid]:
                self.open_exec[mid].remove(rec)
        elif rec.name == 'allocate_task_to_cluster':
            h = self.holders.get(rec)
            if h is not None and h['entered'] and rec.proc.ok:
                # model transition: completion
                mid = h['machine']
                self.completed += 1
                if h['ingest']:
                    self.state[mid] = 'available'
                else:
                    o = h['obs']
                    self.state[mid] = ('idle', o) if o in self._reserved() else 'available'
                h['done'] = True

    def on_boundary(self, t):
        pass

    def after_event(self, rec):
        self.res.nevents += 1
        q = self.env._queue
        if q and q[0][0] == self.env.now and q[0][1] < 1:
            return
        if not self.in_op:
            self.compare('event')

    # ---- helpers
    def _reserved(self):
        # live reservations: created by a provision, ended by a release that found idle machines
        # (a release while every reserved machine is busy leaves the reservation in place, and the
        # machines return to it)
        return self.resv

    def sut_state(self):
        r = self.cluster._resources
        st = {}
        dup = []
        for pool in ('available', 'ingest', 'occupied'):
            for m in r[pool]:
                if m.id in st:
                    dup.append(m.id)
                st[m.id] = pool
        for o, ms in r['idle'].items():
            for m in ms:
                if m.id in st:
                    dup.append(m.id)
                st[m.id] = ('idle', o)
        return st, dup

    def held(self):
        return sum(1 for h in self.holders.values() if h['entered'] and not h.get('done')
                   and not h['rec'].proc.triggered)

    def compare(self, where, exact=True):
        st, dup = self.sut_state()
        res = self.res
        if dup or set(st) != set(self.M):
            res.viol('C02', 'pools_not_a_partition', '%s: dup=%s lost=%s extra=%s' % (
                where, dup, sorted(set(self.M) - set(st)), sorted(set(st) - set(self.M))),
                site='dup' if dup else 'lost', t=self.env.now)
            return st
        if exact and st != self.state:
            diff = {m: (self.state[m], st[m]) for m in self.M if st[m] != self.state[m]}
            res.viol('C02', 'pools_disagree_with_model', '%s: machine: (model, cluster) %s' % (where, diff),
                     t=self.env.now)
        c = self.cluster
        u = c._usage_data
        held = self.held()
        busy = sum(1 for s in st.values() if s in ('occupied', 'ingest'))
        if held != busy:
            res.viol('C02', 'busy_pools_vs_open_holders', '%s: busy pools %d, held %d' % (where, busy, held), t=self.env.now)
        df = None
        try:
            df = c.to_df()
        except Exception as e:
            res.viol('C02', 'to_df_raises', e)
        if df is not None:
            rep = (int(df['available_resources'][0]), int(df['running_tasks'][0]), int(df['finished_tasks'][0]))
            true = (len(self.M) - held, held, self.completed)
            if rep != true:
                res.viol('C02', 'reported_counts_untrue', '%s: reports free/running/finished %s, true %s' % (
                    where, rep, true), site='free' if rep[0] != true[0] else ('running' if rep[1] != true[1] else 'finished'),
                    t=self.env.now)
        try:
            ci = bool(c.is_idle())
            truth = held == 0 and busy == 0
            if ci != truth:
                res.viol('C19', 'cluster_is_idle', '%s: is_idle()=%s, held=%d busy=%d' % (where, ci, held, busy),
                         site='true_while_busy' if ci else 'false_while_idle', t=self.env.now)
        except Exception as e:
            res.viol('C19', 'query_raises', e)
        res.states.add((tuple(sorted(collections.Counter(
            s if isinstance(s, str) else 'idle' for s in st.values()).items())), len(c._resources['idle']), held))
        return st

    def settle(self):
        """Run pending URGENT events of this instant (process initialisation)."""
        env = self.env
        q = env._queue
        while q and q[0][0] == env.now and q[0][1] < 1:
            env.step()

    def snapshot(self):
        c = self.cluster
        st, _ = self.sut_state()
        return (tuple(sorted((k, str(v)) for k, v in st.items())),
                tuple(sorted(c._resources['idle'])),
                tuple(t.id for t in c._tasks['running']), tuple(sorted(c._usage_data.items())),
                tuple(sorted((t.id, v) for t, v in c._tasks['finished'].items())))

    # ---- run
    def run(self):
        res = self.res
        out = io.StringIO()
        with contextlib.redirect_stdout(out):
            for i, op in enumerate(self.case['ops']):
                try:
                    self.do(op, i)
                except Exception as e:
                    res.status = 'harness'
                    res.exc = '%s: %s' % (type(e).__name__, e)
                    raise
                if any(v['prop'] != 'C19' for v in res.violations):
                    break
        res.T = self.env.now
        res.digest = self.env.digest()
        return res

    def do(self, op, i):
        env, c, res = self.env, self.cluster, self.res
        k = op[0]
        before = self.snapshot()
        model_before = dict(self.state)
        resv_before = set(self.resv)
        kind = None
        self.in_op = True
        refused = None
        r = c._resources
        try:
            if k == 'advance':
                self.in_op = False
                env.run(until=env.now + op[1])
                res.probes['advance'] += 1
                return
            elif k == 'prov_batch':
                size, o = op[1], op[2]
                av = [m for m in self.M if self.state[m] == 'available']
                again = o in r['idle']
                c.provision_batch_resources(size, o)
                st, dup = self.sut_state()
                want = min(size, len(av))
                changed = [m for m in self.M if st.get(m) != self.state[m]]
                ok = all(self.state[m] == 'available' and st.get(m) == ('idle', o) for m in changed) and len(changed) == want
                if not ok:
                    res.viol('C02', 'batch_provision_effect', 'provision(%d,%s) with %d available changed %s' % (
                        size, o, len(av), {m: (self.state[m], st.get(m)) for m in changed}), t=env.now)
                for m in changed:
                    self.state[m] = st[m]
                self.resv.add(o)
                res.probes['prov_batch_again' if again else 'prov_batch'] += 1
            elif k == 'release':
                o = op[1]
                had = [m for m in self.M if self.state[m] == ('idle', o)]
                c.release_batch_resources(o)
                for m in had:
                    self.state[m] = 'available'
                if had:
                    self.resv.discard(o)
                res.probes['release_live' if had else 'release_none'] += 1
                if had and any(self.owner.get(m) == o and self.state[m] == 'occupied' for m in self.M):
                    res.probes['release_while_busy'] += 1
            elif k == 'check_ingest':
                demand, mx = op[1], op[2]
                got = c.check_ingest_capacity(demand, mx)
                av = sum(1 for s in self.state.values() if s == 'available')
                ing = sum(1 for s in self.state.values() if s == 'ingest')
                want = demand <= mx and av >= demand and ing + demand <= mx
                if bool(got) != want:
                    res.viol('C08', 'cluster_ingest_check', 'check(%d,%d) with %d available %d on ingest -> %s' % (
                        demand, mx, av, ing, got), t=env.now)
            elif k == 'prov_ingest':
                demand, name, dur, checked = op[1], op[2], op[3], op[4]
                av = [m for m in self.M if self.state[m] == 'available']
                if checked and demand > len(av):
                    demand = len(av)
                    if demand == 0:
                        res.probes['skip'] += 1
                        return
                ob = Observation(name + str(i), 0, dur, 1, None, 1)
                _start(self, c.provision_ingest_resources(demand, ob))
                st, dup = self.sut_state()
                changed = [m for m in self.M if st.get(m) != self.state[m]]
                ok = all(self.state[m] == 'available' and st.get(m) == 'ingest' for m in changed) and len(changed) == demand
                if not ok:
                    res.viol('C02', 'ingest_provision_effect', 'ingest(%d) with %d available changed %s' % (
                        demand, len(av), {m: (self.state[m], st.get(m)) for m in changed}), t=env.now)
                for m in changed:
                    self.state[m] = st[m]
                res.probes['prov_ingest'] += 1
            elif k in ('alloc', 'dup_task'):
                if k == 'dup_task':
                    running = list(c._tasks['running'])
                    av = [m for m in self.M if self.state[m] == 'available']
                    if not running or not av:
                        res.probes['skip'] += 1
                        return
                    task = running[op[1] % len(running)]
                    mid, o, kind = av[0], None, 'dup_task'
                    legal = False
                else:
                    kind, o, pick, dur = op[1], op[2], op[3], op[4]
                    cand = {'available': [m for m in self.M if self.state[m] == 'available'],
                            'own': [m for m in self.M if o is not None and self.state[m] == ('idle', o)],
                            'foreign': [m for m in self.M if isinstance(self.state[m], tuple) and self.state[m][1] != o],
                            'busy': [m for m in self.M if self.state[m] == 'occupied'],
                            'ingest': [m for m in self.M if self.state[m] == 'ingest'],
                            'ghost': ['ghost']}[kind]
                    if not cand and kind in ('own', 'busy', 'ingest', 'foreign'):
                        # nothing in that state right now: fall back to a plain legal allocation
                        kind = 'available'
                        cand = [m for m in self.M if self.state[m] == 'available']
                    if not cand:
                        res.probes['skip'] += 1
                        return
                    mid = cand[pick % len(cand)]
                    legal = kind in ('available', 'own')
                    self.ntask += 1
                    task = Task('t_%d' % self.ntask, 0, dur, None, [])
                machine = self.ghost if mid == 'ghost' else c.machine_ids[mid]
                _start(self, c.allocate_task_to_cluster(task, machine, [], o))
                if legal:
                    self.state[mid] = 'occupied'
                    self.owner[mid] = o
                    res.probes['alloc_' + kind] += 1
                else:
                    # an illegal allocation that was *not* refused
                    res.viol('C02', 'illegal_allocation_accepted', 'allocation on a %s machine (%s, obs=%s) was not refused' % (
                        kind, mid, o), site=kind, t=env.now)
            else:
                raise ValueError(k)
        except Exception as e:
            if type(e).__name__ in ('ValueError',) and k not in ('alloc', 'dup_task', 'prov_ingest', 'prov_batch', 'release'):
                raise
            refused = e
        self.in_op = False
        if refused is not None:
            res.faults['F8:refused_' + (kind if k == 'alloc' else k)] += 1
            self.state = model_before
            self.resv = resv_before
            after = self.snapshot()
            if after != before:
                res.viol('C02', 'refused_call_changed_state', '%s refused with %s but state changed: %s -> %s' % (
                    op, type(refused).__name__, before, after), site=(kind if k == 'alloc' else k), t=env.now)
                # resynchronise the model so later ops are still meaningful
                st, _ = self.sut_state()
                self.state = {m: st.get(m, 'available') for m in self.M}
            if k == 'alloc' and kind in ('available', 'own'):
                res.viol('C02', 'legal_allocation_refused', '%s refused: %s' % (op, refused), t=env.now)
        self.compare('op %d %s' % (i, op[0]))


def run_cluster_case(case, d):
    return ClusterMachine(case, d).run()


# =========================================================================
#                                 BUFFER
# =========================================================================
def gen_buffer_case(seed, depth=10):
    rng = random.Random('bufops/%s' % seed)
    hot_rate = rng.choice([2, 3, 5, 10])
    cold_rate = rng.choice([2, 3, 5, 10, 20])
    if rng.random() < 0.06:
        cold_rate = -1          # 'real-time' mode: the cold tier is an extension of the hot one
    hot_cap = rng.choice([40, 60, 100])
    cold_cap = rng.choice([30, 60, 100])
    ops = []
    n = rng.randint(2, depth)
    if rng.random() < 0.4:
        # park one to three observations of different sizes in cold storage first
        for _ in range(rng.randint(1, 3)):
            ops += [['ingest', rng.randint(1, hot_rate), rng.randint(1, 6)], ['settle'], ['h2c'], ['settle']]
    for _ in range(n):
        k = rng.choices(['ingest', 'h2c', 'c2h', 'advance', 'settle', 'process', 'finish', 'overrate', 'check', 'probe'],
                        [22, 18, 16, 14, 12, 6, 5, 4, 3, 6])[0]
        if k == 'ingest':
            # now and then an observation that produces no data (legal; it still moves between tiers)
            ops.append(['ingest', 0 if rng.random() < 0.08 else rng.randint(1, hot_rate), rng.randint(1, 6)])
        elif k == 'overrate':
            ops.append(['overrate', hot_rate + rng.randint(1, 3), rng.randint(1, 3)])
        elif k == 'advance':
            ops.append(['advance', rng.randint(1, 5)])
        elif k == 'check':
            ops.append(['check', rng.randint(1, hot_rate), rng.randint(1, 12)])
        elif k == 'probe':
            # admission query for a volume chosen at run time right at the edge of what still fits
            ops.append(['probe', rng.choice([-2, -1, 0, 0, 1, 1, 2, 3])])
        else:
            ops.append([k])
    rng2 = random.Random('bufops-exactcold/%s' % seed)     # separate stream: the other cases stay as they were
    if rng2.random() < 0.08 and cold_rate != -1:
        # two observations parked one after the other, the second fitting exactly into what the first leaves free
        r1, d1, r2, d2 = rng2.randint(1, hot_rate), rng2.randint(1, 6), rng2.randint(1, hot_rate), rng2.randint(1, 6)
        cold_cap = r1 * d1 + r2 * d2
        # (both are ingested before either is moved: admission of the second one also asks the cold tier for room)
        ops = [['ingest', r1, d1], ['settle'], ['ingest', r2, d2], ['settle'], ['h2c'], ['settle'], ['h2c'], ['settle']] + ops
    return {'kind': 'buffer_ops', 'cfg': {'timestep': rng.choice(['seconds'] * 6 + ['minutes', 3, 5, 'Minutes']),
                                          'machines': {'m0': {'flops': 1, 'compute_bandwidth': 1}},
                                          'hot': {'capacity': hot_cap, 'max_ingest_rate': hot_rate},
                                          'cold': {'capacity': cold_cap, 'max_data_rate': cold_rate}}, 'ops': ops}


class _StubPlanner(object):
    def run(self, obs, buffer, max_ingest):
        return None


class BufferMachine(object):
    def __init__(self, case, d):
        self.case = case
        self.res = OpResult()
        self.env = VerifEnv()
        self.env.hooks = self
        cfg = Config(_write_cfg(d, case['cfg']))
        self.buf = Buffer(self.env, None, _StubPlanner(), cfg)
        self.hot, self.cold = self.buf.hot[0], self.buf.cold[0]
        c = case['cfg']
        self.hcap, self.ccap = c['hot']['capacity'], c['cold']['capacity']
        from .scenario import unit_factor as _uf
        k_ = _uf(c.get('timestep', 'seconds'))
        # per-timestep rates (a negative cold rate - real-time mode - stays negative after scaling)
        self.hrate, self.crate = c['hot']['max_ingest_rate'] * k_, c['cold']['max_data_rate'] * k_
        self.rate = min(self.hrate, self.crate) if self.crate > 0 else float('inf')
        # model
        self.m_hot = []          # names stored in hot
        self.m_cold = []
        self.m_sched = []
        self.size = {}           # name -> deposited so far
        self.freed = set()
        self.streams = {}        # rec -> dict(obs, left)
        self.moves = {}          # rec -> dict
        self.nobs = 0
        self.objs = {}
        self.in_op = False

    # hooks
    def on_spawn(self, rec):
        if rec.name == 'ingest_data_stream':
            o = rec.loc['observation']
            self.streams[rec] = dict(obs=o.name, n=0)
        elif rec.name in ('move_hot_to_cold', 'move_cold_to_hot'):
            self.moves[rec] = dict(dir='h2c' if rec.name == 'move_hot_to_cold' else 'c2h', steps=0, obs=None,
                                   started=False, left=None, prev=None, size=getattr(self, '_next_move_size', None))

    def on_resume(self, rec):
        if rec in self.moves:
            self.moves[rec]['n'] = self.moves[rec].get('n', 0) + 1
        if rec in self.streams:
            s = self.streams[rec]
            o = self.objs[s['obs']]
            if rec.proc.triggered and not rec.proc.ok:
                return
            s['n'] += 1

    def on_exit(self, rec):
        pass

    def on_boundary(self, t):
        pass

    def after_event(self, rec):
        self.res.nevents += 1
        if not self.in_op:
            self.invariants('event')

    def inflight(self):
        return [m for r, m in self.moves.items() if not r.proc.triggered]

    def lists(self):
        h, c = self.hot.observations, self.cold.observations
        return dict(hs=[o.name for o in h['stored']], hsch=[o.name for o in h['scheduled']],
                    hf=[o.name for o in h['finished']], ht=h['transfer'].name if h['transfer'] else None,
                    cs=[o.name for o in c['stored']], ct=c['transfer'].name if c['transfer'] else None)

    def invariants(self, where):
        res = self.res
        hf, cf = self.hot.current_capacity, self.cold.current_capacity
        if hf < -EPS or hf > self.hcap + EPS:
            res.viol('C07', 'hot_free_out_of_range', '%s: %s of %s' % (where, hf, self.hcap), t=self.env.now)
        if cf < -EPS or cf > self.ccap + EPS:
            res.probes['cold_free_out_of_range_events'] += 1     # outside C07's statement (hot buffer only)
        dep = {}
        for rec, s in self.streams.items():
            o = self.objs[s['obs']]
            dep[s['obs']] = o.ingest_data_rate * s['n']
        resident = sum(v for n, v in dep.items() if n not in self.freed)
        used = (self.hcap - hf) + (self.ccap - cf)
        if abs(used - resident) > EPS:
            res.viol('C07', 'space_not_conserved', '%s: used hot+cold %s, resident %s' % (where, used, resident),
                     site='move' if self.inflight() else 'nomove', t=self.env.now)
        for n, o in self.objs.items():
            if n in dep and abs(o.total_data_size - dep[n]) > EPS:
                res.viol('C07', 'observation_size_vs_deposits', '%s: %s %s vs %s' % (where, n, o.total_data_size, dep[n]))
        try:
            be = bool(self.buf.is_empty())
            if be != (resident <= EPS):
                res.viol('C19', 'buffer_is_empty', '%s: is_empty()=%s resident=%s' % (where, be, resident), t=self.env.now)
        except Exception as e:
            res.viol('C19', 'query_raises', e)
        res.states.add((int(4 * (self.hcap - hf) / self.hcap), int(4 * (self.ccap - cf) / self.ccap),
                        len(self.hot.observations['stored']), len(self.cold.observations['stored']), len(self.inflight())))

    def settle(self):
        env = self.env
        q = env._queue
        while q and q[0][0] == env.now and q[0][1] < 1:
            env.step()

    def quiescent_tiers(self, where):
        """No stream and no move in flight: every observation that holds data is listed in exactly one
        tier, both transfer slots are clear, and each tier's used space is the data of what it lists."""
        if self.inflight() or any(not r.proc.triggered for r in self.streams):
            return
        if any(r.proc.triggered and not r.proc.ok for r in self.moves):
            return          # a move raised: reported by the move check itself
        res = self.res
        L = self.lists()
        for n, o in self.objs.items():
            if n in self.freed or not o.total_data_size:
                continue
            places = (L['hs'] + L['hsch']).count(n) + L['cs'].count(n)
            if places != 1:
                res.viol('C18', 'not_in_exactly_one_tier', '%s: %s is listed in %d places: %s' % (where, n, places, L),
                         site='quiescent')
        if L['ht'] is not None or L['ct'] is not None:
            res.viol('C18', 'transfer_slot_not_cleared', '%s: %s' % (where, L), site='quiescent')
        hot_used = sum(self.objs[n].total_data_size for n in L['hs'] + L['hsch'] if n in self.objs)
        cold_used = sum(self.objs[n].total_data_size for n in L['cs'] if n in self.objs)
        if abs((self.hcap - self.hot.current_capacity) - hot_used) > EPS or abs((self.ccap - self.cold.current_capacity) - cold_used) > EPS:
            res.viol('C18', 'tier_space_vs_listed_observations', '%s: hot used %s, listed %s; cold used %s, listed %s' % (
                where, self.hcap - self.hot.current_capacity, hot_used, self.ccap - self.cold.current_capacity, cold_used),
                site='quiescent')

    def snapshot(self):
        return (self.hot.current_capacity, self.cold.current_capacity, json.dumps(self.lists(), sort_keys=True),
                tuple(sorted((n, o.total_data_size) for n, o in self.objs.items())))

    def run(self):
        out = io.StringIO()
        with contextlib.redirect_stdout(out):
            for i, op in enumerate(self.case['ops']):
                self.do(op, i)
                if any(v['prop'] != 'C19' for v in self.res.violations):
                    break
        if not any(v['prop'] != 'C19' for v in self.res.violations):
            self.in_op = False
            try:
                with contextlib.redirect_stdout(out):
                    self.wait_streams()
                    self.wait_moves()
                self.quiescent_tiers('end')
            except RuntimeError:
                pass
        self.res.T = self.env.now
        self.res.digest = self.env.digest()
        return self.res

    def wait_moves(self, limit=200):
        n = 0
        while self.inflight() and n < limit:
            self.env.run(until=self.env.now + 1)
            n += 1

    def wait_streams(self, limit=50):
        n = 0
        while any(not r.proc.triggered for r in self.streams) and n < limit:
            self.env.run(until=self.env.now + 1)
            n += 1

    def do(self, op, i):
        env, buf, res = self.env, self.buf, self.res
        k = op[0]
        before = self.snapshot()
        self.in_op = True
        try:
            if k == 'advance':
                self.in_op = False
                env.run(until=env.now + op[1])
                return
            if k == 'settle':
                self.in_op = False
                self.wait_streams()
                self.wait_moves()
                self.quiescent_tiers('settle %d' % i)
                return
            if k in ('ingest', 'overrate'):
                rate, dur = op[1], op[2]
                if k == 'overrate':
                    # above the limit of *this* configuration (the limit is per timestep)
                    rate = self.hrate + max(1, op[1] - self.case['cfg']['hot']['max_ingest_rate'])
                self.nobs += 1
                name = 'b%d' % self.nobs
                ob = Observation(name, 0, dur, 1, None, rate)
                vol = rate * dur
                can = None
                try:
                    can = buf.check_buffer_capacity(ob)
                except RuntimeError:
                    can = False
                if not can:
                    res.probes['ingest_refused_no_room'] += 1
                    self.in_op = False
                    return
                # admission does not reserve space (a known finding of C07): keep concurrent
                # admitted volumes within capacity so this machine tests the moves, not that.
                pend = sum(self.objs[s['obs']].ingest_data_rate * (self.objs[s['obs']].duration - s['n'])
                           for r, s in self.streams.items() if not r.proc.triggered)
                if self.hot.current_capacity - pend - vol < 0:
                    res.probes['ingest_skipped_overcommit'] += 1
                    self.in_op = False
                    return
                ob.status = RunStatus.RUNNING
                self.objs[name] = ob
                if hasattr(buf, 'admitted_observations'):
                    buf.admitted_observations.append(ob)        # what Scheduler.check_ingest_capacity does on admission
                try:
                    _start(self, buf.ingest_data_stream(ob))
                except ValueError as e:
                    res.faults['F8:overrate_rejected'] += 1
                    self.in_op = False
                    if ob in getattr(buf, 'admitted_observations', []):
                        buf.admitted_observations.remove(ob)
                    del self.objs[name]
                    for r in [r for r, s in self.streams.items() if s['obs'] == name]:
                        del self.streams[r]
                    if self.snapshot()[:3] != before[:3] or ob.total_data_size != 0:
                        res.viol('C07', 'rejected_ingest_changed_state', '%s -> %s' % (before, self.snapshot()))
                    if k != 'overrate':
                        res.viol('C07', 'legal_ingest_rejected', '%s: %s' % (op, e))
                    self.invariants('op %d' % i)
                    return
                if k == 'overrate':
                    res.viol('C07', 'overrate_ingest_accepted', 'rate %s > max %s accepted' % (rate, self.hrate))
                res.probes['ingest'] += 1
            elif k in ('check', 'probe'):
                # space owed: to streams in flight, and to cold->hot moves in flight (exact remainder / whole size)
                pend = sum(self.objs[s_['obs']].ingest_data_rate * (self.objs[s_['obs']].duration - s_['n'])
                           for r_, s_ in self.streams.items() if not r_.proc.triggered)
                c2h = [m_ for r_, m_ in self.moves.items() if not r_.proc.triggered and m_['dir'] == 'c2h' and m_.get('size')]
                owed_exact = sum((m_['size'] if not m_.get('n') else max(0, m_['size'] - self.rate * m_['n'])) for m_ in c2h)
                owed_all = sum(m_['size'] for m_ in c2h)
                if k == 'check':
                    rate, dur = op[1], op[2]
                else:
                    rate, dur = 1, int(max(1, self.hot.current_capacity - pend - owed_exact + op[1]))
                ob = Observation('chk', 0, dur, 1, None, rate)
                vol = rate * dur
                try:
                    got = buf.check_buffer_capacity(ob)
                except RuntimeError:
                    got = 'raise'
                res.probes['admission_query'] += 1
                hfree, cfree = self.hot.current_capacity, self.cold.current_capacity
                if got is True and (hfree - pend - owed_exact - vol < -EPS or cfree - vol < -EPS):
                    # C08: an observation begins only if both buffers have room for its whole volume
                    res.viol('C08', 'admitted_without_room', 'volume %s admitted with hot free %s (of which %s owed to ingests in '
                             'flight, %s to cold->hot moves in flight), cold free %s' % (vol, hfree, pend, owed_exact, cfree))
                idle = not pend and not self.inflight() and hfree == self.hcap and cfree == self.ccap
                if got is not True and idle and vol < self.hcap and vol <= self.ccap:
                    res.viol('C08', 'refused_although_idle', 'volume %s refused (%s) by an empty, idle buffer (%s/%s)' % (
                        vol, got, self.hcap, self.ccap))
                if self.snapshot() != before:
                    res.viol('C08', 'admission_query_changed_state', '%s -> %s' % (before, self.snapshot()))
            elif k in ('h2c', 'c2h'):
                # sequential moves are fully modelled; a move started while another is in flight
                # is only checked for global conservation (the tiers share one transfer slot)
                conc = bool(self.inflight()) or any(not r.proc.triggered for r in self.streams)
                src, dst = (self.hot, self.cold) if k == 'h2c' else (self.cold, self.hot)
                st = src.observations['stored']
                if not st:
                    gen = buf.move_hot_to_cold(0) if k == 'h2c' else buf.move_cold_to_hot(0)
                    try:
                        _start(self, gen)
                        res.viol('C18', 'move_of_nothing_accepted', k)
                    except RuntimeError:
                        res.faults['F8:move_nothing_refused'] += 1
                        if self.snapshot() != before:
                            res.viol('C18', 'refused_move_changed_state', 'empty source: %s -> %s' % (before, self.snapshot()), site='empty')
                    self.in_op = False
                    self.invariants('op %d' % i)
                    return
                ob = st[-1]
                size = ob.total_data_size
                if k == 'c2h':
                    # Buffer.run never starts a cold->hot move into space that is owed to a streaming ingest
                    owed = sum(self.objs[s_['obs']].ingest_data_rate * (self.objs[s_['obs']].duration - s_['n'])
                               for r_, s_ in self.streams.items() if not r_.proc.triggered)
                    # ... or to another cold->hot move that is still in flight (conservatively: its whole size)
                    owed += sum(m_.get('size') or 0 for r_, m_ in self.moves.items()
                                if not r_.proc.triggered and m_['dir'] == 'c2h')
                    if self.hot.has_capacity_for(size) and self.hot.current_capacity - owed - size < 0:
                        # (a move the hot tier has no room for at all is *not* skipped: it must be refused)
                        res.probes['move_skipped_space_owed'] += 1
                        self.in_op = False
                        return
                dfree0 = dst.current_capacity
                sfree0 = src.current_capacity
                room = dst.has_capacity_for(size)
                gen = buf.move_hot_to_cold(0) if k == 'h2c' else buf.move_cold_to_hot(0)
                self._next_move_size = size
                if conc and not room:
                    # no room: must be refused whatever else is in flight
                    p = _start(self, gen)
                    self.in_op = False
                    res.faults['F8:move_no_room_refused'] += 1
                    if not p.triggered or p.value is not False:
                        res.viol('C18', 'move_without_room_not_refused', '%s size %s dst free %s (another move or ingest in flight)' % (
                            k, size, dfree0), site='concurrent')
                    elif self.snapshot() != before:
                        res.viol('C18', 'refused_move_changed_state', 'no room: %s -> %s' % (before, self.snapshot()), site='noroom:concurrent')
                    return
                if conc:
                    res.probes['concurrent_move'] += 1
                    self.in_op = False
                    try:
                        _start(self, gen)
                    except RuntimeError as e:
                        res.viol('C18', 'move_raises', '%s (concurrent): %s' % (k, e), site=k + ':concurrent')
                    return
                if not room and not dst.observations['transfer'] and dfree0 - size >= 0:
                    # the destination's own answer is not the oracle: with nothing in flight, room is free >= size
                    res.viol('C18', 'move_with_room_refused', '%s size %s dst free %s (stored there: %d)' % (
                        k, size, dfree0, len(dst.observations['stored'])), site=k)
                    self.in_op = False
                    return
                if not room:
                    p = _start(self, gen)
                    self.in_op = False
                    res.faults['F8:move_no_room_refused'] += 1
                    if not p.triggered or p.value is not False:
                        res.viol('C18', 'move_without_room_not_refused', '%s size %s dst free %s' % (k, size, dfree0))
                    if self.snapshot() != before:
                        res.viol('C18', 'refused_move_changed_state', 'no room: %s -> %s' % (before, self.snapshot()), site='noroom')
                    self.invariants('op %d' % i)
                    return
                # a legal move: follow it step by step
                self.in_op = False
                left = size
                nsteps = 0
                expect_steps = math.ceil(size / self.rate) if self.rate != float('inf') else (1 if size > 0 else 0)
                try:
                    p = _start(self, gen)   # first transfer step happens at process start
                    guard = 0
                    while True:
                        s1, d1 = src.current_capacity, dst.current_capacity
                        moved_out = s1 - sfree0
                        moved_in = dfree0 - d1
                        if abs(moved_out - moved_in) > EPS:
                            res.viol('C18', 'step_not_conserved', '%s: %s left source, %s entered destination' % (
                                k, moved_out, moved_in), site=k)
                        if moved_in > EPS:
                            nsteps += 1
                            want = min(self.rate, left)
                            if abs(moved_in - want) > EPS:
                                res.viol('C18', 'move_rate', '%s moved %s in a step; slower rate %s, %s left' % (
                                    k, moved_in, self.rate, left), site=k + (':hot_slower' if self.hrate < self.crate else ':cold_slower'))
                            left -= moved_in
                        sfree0, dfree0 = s1, d1
                        if p.triggered:
                            break
                        guard += 1
                        if guard > 400:
                            res.viol('C18', 'move_never_completes', k)
                            break
                        env.run(until=env.now + 1)
                        if p.triggered and not p.ok:
                            p.defused = True
                            raise p.value
                except RuntimeError as e:
                    res.viol('C18', 'move_raises', '%s size %s hot rate %s cold rate %s: %s' % (
                        k, size, self.hrate, self.crate, e), site=k + (':hot_slower' if self.hrate < self.crate else ':cold_slower'))
                    return
                res.probes['move_' + k] += 1
                if self.hrate < self.crate:
                    res.probes['move_hot_slower'] += 1
                if abs(left) > EPS:
                    res.viol('C18', 'move_incomplete', '%s moved %s of %s' % (k, size - left, size))
                elif nsteps != expect_steps:
                    res.viol('C18', 'move_steps', '%s took %d transfer steps for %s at %s (expected %d)' % (
                        k, nsteps, size, self.rate, expect_steps), site=k)
                L = self.lists()
                inh = (L['hs'] + L['hsch']).count(ob.name)
                inc = L['cs'].count(ob.name)
                if (inh, inc) != ((0, 1) if k == 'h2c' else (1, 0)):
                    res.viol('C18', 'not_in_exactly_one_tier', '%s after %s: %s' % (ob.name, k, L))
                if L['ht'] is not None or L['ct'] is not None:
                    res.viol('C18', 'transfer_slot_not_cleared', L)
                if ob.total_data_size != size:
                    res.viol('C18', 'size_changed_by_move', '%s -> %s' % (size, ob.total_data_size))
            elif k == 'process':
                if self.hot.observations['stored']:
                    buf.next_observation_for_processing()
                    res.probes['process'] += 1
            elif k == 'finish':
                sch = self.hot.observations['scheduled']
                if sch:
                    ob = sch[0]
                    hf0 = self.hot.current_capacity
                    okk = buf.mark_observation_finished(ob)
                    self.freed.add(ob.name)
                    if not okk or abs(self.hot.current_capacity - hf0 - ob.total_data_size) > EPS:
                        res.viol('C07', 'free_on_completion', 'freed %s for %s of size %s' % (
                            self.hot.current_capacity - hf0, ob.name, ob.total_data_size))
                    res.probes['finish'] += 1
            else:
                raise ValueError(k)
        finally:
            self.in_op = False
        self.invariants('op %d' % i)


def run_buffer_case(case, d):
    return BufferMachine(case, d).run()
