"""Parallel seeded search, known-finding triage, minimisation, replay and
evidence (DESIGN §2.6, §2.8, §3, §5)."""
import collections
import concurrent.futures as cf
import faulthandler
import hashlib
import json
import multiprocessing as mp
import os
import re
import shutil
import subprocess
import sys
import tempfile
import time
import traceback

VERIF = os.path.dirname(os.path.dirname(os.path.abspath(__file__)))
# VERIF_OUT redirects replays/evidence (used when the checks are pointed at a mutated scratch copy)
_OUT = os.environ.get('VERIF_OUT') or VERIF
REPLAYS = os.path.join(_OUT, 'replays')
EVIDENCE = os.path.join(_OUT, 'evidence')
KNOWN = os.path.join(VERIF, 'known_findings.json')

# ---------------------------------------------------------------- properties
# jobs: (kind, profile, weight); quick_n: cases per quick run (per job weight 1.0)
PROPS = {
    'C01': dict(jobs=[('sim', 'adv', .5), ('sim', 'contend', .4), ('cluster_ops', '-', .1)], quick_n=3000,
                rule='machine hand-over inside one step, >=2 executions open at once, or an adversarial (F2) rewrite fired',
                nontrivial=lambda o: o['probes'].get('same_step_handover') or o['probes'].get('concurrent_executions')
                or any(k.startswith('F2') for k in o['faults']) or any(k.startswith('F8') for k in o['faults'])),
    'C02': dict(jobs=[('cluster_ops', '-', .6), ('sim', 'contend', .25), ('sim', 'adv', .15)], quick_n=6000,
                rule='op sequence with >=1 refused (illegal) call, or a simulation with a reservation or ingest overlapping workflow tasks',
                nontrivial=lambda o: any(k.startswith('F8') for k in o['faults']) or o['probes'].get('reservation')
                or o['probes'].get('ingest_overlaps_workflow')),
    'C03': dict(jobs=[('sim', 'contend', .5), ('sim', 'plan', .25), ('sim', 'general', .25)], quick_n=3000,
                rule='run with >=1 cross-machine edge with positive transfer wait and >=1 same-machine edge',
                nontrivial=lambda o: o['probes'].get('c03_nontrivial')),
    'C04': dict(jobs=[('sim', 'general', .45), ('sim', 'adv', .3), ('sim', 'contend', .18), ('pause_sample', 'real', .07)], quick_n=3000,
                rule='completed run with >=2 workflows or a fired adversarial rewrite',
                nontrivial=lambda o: o['status'] == 'ok' and (o['probes'].get('multi_workflow') or any(k.startswith('F2') for k in o['faults'])
                                                              or o['probes'].get('pause_points'))),
    'C05': dict(jobs=[('sim', 'live', .7), ('sim', 'contend', .3)], quick_n=3000,
                rule='feasible run in which an observation was postponed past its planned start, two started in one step, or a tier move happened',
                nontrivial=lambda o: o['probes'].get('observation_postponed') or o['probes'].get('two_starts_same_step')
                or o['probes'].get('tier_move')),
    'C06': dict(jobs=[('sim', 'general', .36), ('sim', 'delay', .11), ('sim', 'gdelay', .08), ('sim', 'units', .1), ('sim', 'adv', .1), ('taskdrv', '-', .25)], quick_n=4000,
                rule='run with a zero-runtime or >=3-step task and at least one comparable pair of executions',
                nontrivial=lambda o: (o['probes'].get('zero_runtime_task') or o['probes'].get('long_task')) and o['probes'].get('mono_pairs')),
    'C07': dict(jobs=[('sim', 'buffer', .6), ('buffer_ops', '-', .4)], quick_n=4000,
                rule='observation started while the hot buffer already held data, a tier move, or an op sequence with a move/rejected ingest',
                nontrivial=lambda o: o['probes'].get('start_under_load') or o['probes'].get('tier_move') or o['probes'].get('move_h2c')
                or any(k.startswith('F8') for k in o['faults'])),
    'C08': dict(jobs=[('sim', 'contend', .42), ('sim', 'live', .42), ('buffer_ops', '-', .16)], quick_n=3500,
                rule='an observation started under load (buffer or machines partly in use) or two started in one step, or a buffer '
                     'op sequence with admission queries at the edge of the free space',
                nontrivial=lambda o: o['probes'].get('start_under_load') or o['probes'].get('two_starts_same_step')
                or o['probes'].get('admission_query')),
    'C09': dict(jobs=[('sim', 'batch', .7), ('cluster_ops', '-', .3)], quick_n=4000,
                rule='batch run with >=2 reservations, or op sequence with a foreign/own-reservation allocation',
                nontrivial=lambda o: o['probes'].get('reservation', 0) >= 2 or o['probes'].get('alloc_own') or o['faults'].get('F8:refused_foreign')),
    'C10': dict(jobs=[('repro', 'repro', 1.0)], quick_n=100, workers=10,
                rule='completed scenario with a >=3-node workflow on a heterogeneous cluster, run 2x in-process and in 3 fresh interpreters with other PYTHONHASHSEED',
                nontrivial=lambda o: o['probes'].get('hetero_wide_completed')),
    'C11': dict(jobs=[('pause', 'real', 1.0)], quick_n=60,
                rule='scenario whose pause points include one mid-ingest or mid-task',
                nontrivial=lambda o: o['probes'].get('pause_mid_ingest') or o['probes'].get('pause_mid_task')),
    'C12': dict(jobs=[('sim', 'real', .85), ('pause_sample', 'real', .15)], quick_n=1200,
                rule='run with ingest overlapping workflow tasks (rows where several columns are non-zero) or staggered overlapping ingests',
                nontrivial=lambda o: o['probes'].get('rows_checked', 0) >= 4 and (o['probes'].get('ingest_overlaps_workflow')
                                                                                  or o['probes'].get('staggered_overlapping_ingest')
                                                                                  or o['probes'].get('pause_points'))),
    'C13': dict(jobs=[('sim', 'real', .8), ('pause_sample', 'real', .2)], quick_n=700,
                rule='completed run where >=1 full causal chain was checked',
                nontrivial=lambda o: o['probes'].get('causal_chains_checked') or o['probes'].get('pause_points')),
    'C14': dict(jobs=[('sim', 'general', .6), ('plandrv', 'general', .4)], quick_n=3500,
                rule='plan with >=4 nodes and a join (node with >=2 predecessors), or several observations planned at the same clock by direct planner calls',
                nontrivial=lambda o: o['probes'].get('plan_with_join') or o['probes'].get('same_clock_plans')),
    'C15': dict(jobs=[('delaymodel', '-', .55), ('sim', 'delay', .3), ('sim', 'gdelay', .15)], quick_n=2500,
                rule='delay-model case where a draw fired, or a simulation in which a task was actually delayed',
                nontrivial=lambda o: o['probes'].get('draws_fired') or o['probes'].get('delayed_task')),
    'C16': dict(jobs=[('units', 'units', 1.0)], quick_n=1500,
                rule='scenario pair (unit k vs seconds) whose trajectories were both run',
                nontrivial=lambda o: o['probes'].get('trajectory_pairs')),
    'C17': dict(jobs=[('sim', 'plan', 1.0)], quick_n=3000,
                rule='plan-following run with contention (>=2 workflows or ingest overlapping workflow tasks)',
                nontrivial=lambda o: o['probes'].get('multi_workflow') or o['probes'].get('ingest_overlaps_workflow')),
    'C18': dict(jobs=[('buffer_ops', '-', .75), ('sim', 'buffer', .25)], quick_n=6000,
                rule='sequence/run with at least one completed or refused tier move',
                nontrivial=lambda o: o['probes'].get('move_h2c') or o['probes'].get('move_c2h') or o['probes'].get('tier_move')
                or o['faults'].get('F8:move_no_room_refused')),
    'C19': dict(jobs=[('sim', 'general', .47), ('cluster_ops', '-', .3), ('buffer_ops', '-', .2), ('pause_sample', 'general', .03)], quick_n=4000,
                rule='run/sequence in which the cluster was busy at some point (query evaluated in busy and idle states)',
                nontrivial=lambda o: o['nevents'] > 10),
}

COMPONENTS = {
    'real': ['topsim.core.simulation.Simulation', 'Monitor', 'Telescope', 'Cluster', 'Machine', 'Scheduler', 'Buffer',
             'HotBuffer', 'ColdBuffer', 'Planner', 'BatchPlanning', 'SHADOWPlanning', 'BatchProcessing', 'QueueProcessing',
             'DynamicSchedulingFromPlan', 'GreedySchedulingFromPlan', 'Task', 'DelayModel', 'Config', 'simpy (subclassed event loop)'],
    'stub': ['shadow (external static planner): in-process fake emitting valid seeded plans',
             'topsim.core.scheduler.time: counter instead of wall clock',
             "Monitor.collate_actor_dataframes: empty frame in 'light' monitor runs (never for C10-C13)",
             'op-machines: planner/cluster peers of Buffer are stubs'],
}


# ------------------------------------------------------------------- workers
_TMP = {}
_HISTORY = []       # (kind, profile, seed, tier) of every case this process has executed, in order


def _tmpdir():
    """Private scratch directory of *this* process (never inherited over fork)."""
    pid = os.getpid()
    d = _TMP.get(pid)
    if d is None or not os.path.isdir(d):
        d = tempfile.mkdtemp(prefix='tsim-w%d-' % pid, dir=os.environ.get('TSIM_TMPROOT') or None)
        _TMP.clear()
        _TMP[pid] = d
        _decoys(d)
        import atexit
        atexit.register(lambda p=d, me=pid: os.getpid() == me and shutil.rmtree(p, ignore_errors=True))
    return d


def _decoys(d):
    """The process' working directory holds *other* files under the names the configurations use for their
    workflows (a path in a configuration is relative to the configuration file, not to the working directory)."""
    try:
        import networkx as _nx
        for i_ in range(40):
            g_ = _nx.DiGraph()
            g_.add_node(0, comp=7)
            with open(os.path.join(d, 'wf%d.json' % i_), 'w') as fp_:
                json.dump({'header': {'decoy': True}, 'graph': _nx.node_link_data(g_)}, fp_)
        os.chdir(d)
    except Exception:
        pass


def case_digest(case):
    return hashlib.sha1(json.dumps(case, sort_keys=True).encode()).hexdigest()[:16]


def sig_of(v):
    return (v['prop'], v['clause'], v.get('site') or '')


def work(args):
    """Run a chunk of cases; return aggregated, picklable results."""
    pid, kind, profile, seedbase, start, count, tier, per_case_timeout = args
    from . import cases
    d = _tmpdir()
    agg = dict(n=0, steps=0.0, events=0, probes=collections.Counter(), faults=collections.Counter(),
               status=collections.Counter(), nontriv=[], digests=set(), states=set(), viols=[], other=collections.Counter(),
               samples=[], harness=[], kind=kind, profile=profile)
    nt = PROPS[pid]['nontrivial']
    hist_sent = set()
    for i in range(start, start + count):
        seed = '%s/%s/%s/%d' % (seedbase, kind, profile, i)
        faulthandler.dump_traceback_later(per_case_timeout, exit=True)
        hist_before = len(_HISTORY)
        _HISTORY.append([kind, profile, seed, tier])
        try:
            case = cases.gen_case(kind, profile, seed, tier)
            out = cases.exec_case(case, d)
        except Exception as e:
            agg['harness'].append('%s: %s\n%s' % (seed, e, traceback.format_exc()[-1500:]))
            continue
        finally:
            faulthandler.cancel_dump_traceback_later()
        if out.get('status') == 'harness':
            agg['harness'].append('%s: %s' % (seed, out.get('exc')))
            continue
        agg['n'] += 1
        agg['steps'] += out['T']
        agg['events'] += out['nevents']
        agg['probes'].update(out['probes'])
        agg['faults'].update(out['faults'])
        agg['status'][out['status']] += 1
        if out['digest']:
            agg['digests'].add(out['digest'][:12])
        for s in out['states']:
            agg['states'].add(tuple(s) if isinstance(s, list) else s)
        if nt(out):
            agg['nontriv'].append(case_digest(case))
            if len(agg['samples']) < 1:
                agg['samples'].append(dict(seed=seed, case=case, status=out['status'], T=out['T'],
                                           faults_fired=out['faults'], probes=out['probes']))
        for v in out['violations']:
            if v['prop'] == pid:
                x = dict(seed=seed, v=v, case=case, digest=out['digest'])
                if sig_of(v) not in hist_sent and hist_before:
                    # what this interpreter had executed before: needed if the failure depends on state that
                    # leaked from an earlier simulation (DESIGN 13: chain replay)
                    hist_sent.add(sig_of(v))
                    x['hist'] = [list(h) for h in _HISTORY[:hist_before]]
                agg['viols'].append(x)
            else:
                agg['other'][v['prop']] += 1
    return agg


def exec_one(case):
    from . import cases
    faulthandler.dump_traceback_later(1800, exit=True)
    try:
        return cases.exec_case(case, _tmpdir())
    finally:
        faulthandler.cancel_dump_traceback_later()


# ------------------------------------------------------------ known findings
def load_known():
    if not os.path.exists(KNOWN):
        return {'findings': [], 'fixed': []}
    with open(KNOWN) as fp:
        return json.load(fp)


def match_known(known, sig, case=None):
    for f in known.get('findings', []):
        if f['property'] != sig[0] or f['clause'] != sig[1]:
            continue
        if f.get('site_regex') is not None and not re.fullmatch(f['site_regex'], sig[2]):
            continue
        if f.get('kinds') and case is not None and case['kind'] not in f['kinds']:
            continue
        return f
    return None


# -------------------------------------------------------------------- shrink
def shrink(pool, case, sig, budget_runs=250, budget_s=90, hint=None):
    from . import cases
    t0 = time.time()
    runs = 0
    cur = case
    improved = True
    while improved and runs < budget_runs and time.time() - t0 < budget_s:
        improved = False
        cands = list(cases.shrink_candidates(cur, hint))
        # evaluate in small parallel batches, accept the first (in order) that reproduces
        i = 0
        while i < len(cands) and runs < budget_runs and time.time() - t0 < budget_s:
            batch = cands[i:i + 8]
            futs = [pool.submit(exec_one, c) for c in batch]
            hit = None
            for c, f in zip(batch, futs):
                try:
                    out = f.result(timeout=400)
                except Exception:
                    continue
                runs += 1
                if hit is None and any(sig_of(v) == sig for v in out['violations']):
                    hit = c
            if hit is not None:
                cur = hit
                improved = True
                break
            i += 8
    return cur, runs


def write_replay(pid, sig, case, msg, seed, found_seed, runs):
    os.makedirs(REPLAYS, exist_ok=True)
    name = '%s-%s-%s.json' % (pid, re.sub(r'[^A-Za-z0-9]+', '_', sig[1])[:40], case_digest(case)[:8])
    path = os.path.join(REPLAYS, name)
    with open(path, 'w') as fp:
        json.dump({'property': pid, 'signature': list(sig), 'message': msg, 'case': case,
                   'hashseed': os.environ.get('PYTHONHASHSEED', '0'), 'verif_seed': seed,
                   'found_at': found_seed, 'shrink_runs': runs}, fp, indent=1, sort_keys=True)
    return path


def replay(path, quiet=False):
    """Re-execute a replay file in this interpreter.  Returns (reproduced, out)."""
    from . import cases
    with open(path) as fp:
        rp = json.load(fp)
    d = tempfile.mkdtemp(prefix='tsim-replay-')
    cwd = os.getcwd()
    _decoys(d)
    try:
        out = cases.exec_case(rp['case'], d)
    finally:
        os.chdir(cwd)
        shutil.rmtree(d, ignore_errors=True)
        cases.close_helpers()
    sig = tuple(rp['signature'])
    hit = [v for v in out['violations'] if sig_of(v) == sig]
    return bool(hit), out, rp, hit


def _chain_replay(pid, sig, xs, seed, replay_fn, budget_s=300):
    """A failure that does not reproduce in a fresh interpreter may depend on state left behind by the
    simulations the worker ran before it (module-level caches, class attributes, mutable defaults).  Re-run the
    worker's history followed by the case in a fresh interpreter; if that reproduces, minimise the history
    (shortest suffix, then single entries) and return the replay path, else None."""
    t0 = time.time()
    cand = [x for x in xs if x.get('hist')]
    if not cand:
        return None
    cand.sort(key=lambda x: len(x['hist']))
    x = cand[0]
    hist = x['hist']

    def attempt(h):
        case = {'kind': 'chain', 'hist': h, 'case': x['case']}
        path = write_replay(pid, sig, case, x['v']['msg'] + ' [after %d earlier simulations in the same interpreter]' % len(h),
                            seed, x['seed'], 0)
        r = replay_fn(path)
        return path if (r.returncode == 1 and 'VIOLATION' in r.stdout) else None
    best = attempt(hist)
    if not best:
        return None
    best_h = hist
    # shortest suffix
    k = 1
    while k < len(best_h) and time.time() - t0 < budget_s:
        p = attempt(best_h[-k:])
        if p:
            best, best_h = p, best_h[-k:]
            break
        k *= 2
    # drop single entries (earliest first)
    i = 0
    while i < len(best_h) and 1 < len(best_h) <= 16 and time.time() - t0 < budget_s:
        h = best_h[:i] + best_h[i + 1:]
        p = attempt(h)
        if p:
            best, best_h = p, h
        else:
            i += 1
    return best


# ----------------------------------------------------------------------- run
def run_property(pid, tier='quick', seed=0, budget_s=None, workers=None, scale=1.0, out=sys.stdout):
    root = tempfile.mkdtemp(prefix='tsim-run-')
    os.environ['TSIM_TMPROOT'] = root
    try:
        return _run_property(pid, tier, seed, budget_s, workers, scale, out)
    finally:
        from . import cases as _c
        _c.close_helpers()
        shutil.rmtree(root, ignore_errors=True)
        os.environ.pop('TSIM_TMPROOT', None)


def _run_property(pid, tier, seed, budget_s, workers, scale, out):
    spec = PROPS[pid]
    t0 = time.time()
    workers = workers or spec.get('workers') or min(16, os.cpu_count() or 4)
    if tier == 'quick':
        total = int(spec['quick_n'] * scale)
        deadline = t0 + (budget_s or 75)
    else:
        total = 10 ** 9
        deadline = t0 + (budget_s or float(os.environ.get('VERIF_BUDGET_S', 300)))
    seedbase = '%s/%s/%s' % (seed, pid, tier)
    known = load_known()
    ctx = mp.get_context('fork')
    agg = dict(n=0, steps=0.0, events=0, probes=collections.Counter(), faults=collections.Counter(),
               status=collections.Counter(), nontriv=set(), digests=set(), states=set(), other=collections.Counter(),
               samples=[], harness=[], per_job={})
    viols = []
    jobs = spec['jobs']
    cursor = {j: 0 for j in jobs}
    chunk = {'sim': 20, 'cluster_ops': 150, 'buffer_ops': 150, 'repro': 3, 'pause': 2, 'pause_sample': 6, 'units': 10, 'delaymodel': 100, 'taskdrv': 200, 'plandrv': 60}
    timeout = {'sim': 600, 'repro': 900, 'pause': 1800, 'pause_sample': 900, 'units': 900}    # backstop only (dead worker => exit 2)
    submitted = 0
    pending = set()
    broken = None
    with cf.ProcessPoolExecutor(max_workers=workers, mp_context=ctx) as pool:
        try:
            while True:
                now = time.time()
                # keep the pool fed
                # the verdict is decided once enough violations are in hand: stop generating new work
                enough = len([x for x in viols if match_known(known, sig_of(x['v']), x['case']) is None]) >= 80
                while len(pending) < workers * 2 and submitted < total and now < deadline and not enough:
                    # pick the job furthest behind its weight
                    j = min(jobs, key=lambda x: cursor[x] / x[2])
                    n = chunk.get(j[0], 20)
                    if tier == 'quick':
                        n = max(1, min(n, int(total * j[2] / (workers * 2)) or 1))
                    n = min(n, total - submitted)
                    f = pool.submit(work, (pid, j[0], j[1], seedbase, cursor[j], n, tier, timeout.get(j[0], 600)))
                    cursor[j] += n
                    submitted += n
                    pending.add(f)
                if not pending:
                    break
                done, pending = cf.wait(pending, timeout=1.0, return_when=cf.FIRST_COMPLETED)
                for f in done:
                    a = f.result()
                    agg['n'] += a['n']
                    agg['steps'] += a['steps']
                    agg['events'] += a['events']
                    agg['probes'].update(a['probes'])
                    agg['faults'].update(a['faults'])
                    agg['status'].update(a['status'])
                    agg['nontriv'].update(a['nontriv'])
                    agg['digests'].update(a['digests'])
                    agg['states'].update(a['states'])
                    agg['other'].update(a['other'])
                    agg['harness'] += a['harness']
                    pj = agg['per_job'].setdefault('%s/%s' % (a['kind'], a['profile']), dict(cases=0, nontrivial=0))
                    pj['cases'] += a['n']
                    pj['nontrivial'] += len(a['nontriv'])
                    if len(agg['samples']) < 3:
                        agg['samples'] += a['samples']
                    viols += a['viols']
                if time.time() >= deadline and tier != 'quick':
                    for f in pending:
                        f.cancel()
                    # drain what is already running
                    done, pending = cf.wait(pending, timeout=120)
                    for f in done:
                        if not f.cancelled():
                            try:
                                a = f.result()
                                agg['n'] += a['n']; agg['steps'] += a['steps']; agg['events'] += a['events']
                                agg['probes'].update(a['probes']); agg['faults'].update(a['faults'])
                                agg['status'].update(a['status']); agg['nontriv'].update(a['nontriv'])
                                agg['digests'].update(a['digests']); agg['states'].update(a['states'])
                                agg['harness'] += a['harness']; viols += a['viols']
                            except Exception as e:
                                agg['harness'].append(str(e))
                    break
        except cf.process.BrokenProcessPool as e:
            broken = 'worker died (timeout or crash): %s' % e
        # ------------------------------------------------ triage + shrink
        groups = collections.OrderedDict()
        for x in viols:
            groups.setdefault(sig_of(x['v']), []).append(x)
        new = []
        known_hit = collections.Counter()
        for sig, xs in groups.items():
            kf = match_known(known, sig, xs[0]['case'])
            if kf is not None:
                known_hit[kf['id']] += len(xs)
                continue
            new.append((sig, xs))
        reports = []
        if broken is None:
            for sig, xs in new[:6]:
                xs.sort(key=lambda x: len(json.dumps(x['case'])))
                case = xs[0]['case']
                try:
                    small, runs = shrink(pool, case, sig, hint=xs[0]['v'])
                except Exception as e:
                    small, runs = case, 0
                # the minimised case must still reproduce (fresh process below); fall back to the original
                path = write_replay(pid, sig, small, xs[0]['v']['msg'], seed, xs[0]['seed'], runs)
                reports.append((sig, path, len(xs), xs[0]))
    from . import cases as _cases
    _cases.close_helpers()
    # ------------------------------------------------ confirm replays in a fresh interpreter
    confirmed = []
    unconfirmed = []
    slow = []
    chained = 0
    xs_by_sig = {sig: xs for sig, xs in new}
    def _replay(path):
        try:
            return subprocess.run([sys.executable, os.path.join(VERIF, 'check'), pid, '--replay', path],
                                  capture_output=True, text=True, timeout=1800)
        except subprocess.TimeoutExpired as e:
            return subprocess.CompletedProcess(e.cmd, 124, stdout='', stderr='replay timed out')
    for sig, path, n, x in reports:
        r = _replay(path)
        if r.returncode == 1 and 'VIOLATION' in r.stdout:
            confirmed.append((sig, path, n, x))
        else:
            # minimised case does not replay: try the unminimised one
            path2 = write_replay(pid, sig, x['case'], x['v']['msg'], seed, x['seed'], 0)
            r2 = _replay(path2)
            if r2.returncode == 1 and 'VIOLATION' in r2.stdout:
                confirmed.append((sig, path2, n, x))
                continue
            # not reproducible from a fresh interpreter: does it depend on what the interpreter ran before?
            chain_path = _chain_replay(pid, sig, xs_by_sig.get(sig) or [x], seed, _replay)
            if chain_path:
                confirmed.append((sig, chain_path, n, x))
                chained += 1
            elif sig[1] == 'hang':
                # a wall-clock verdict that does not reproduce in a quiet process was a slow run on a loaded
                # machine, not a hang: neither a violation nor a harness error
                slow.append((sig, path2, n))
            else:
                unconfirmed.append((sig, path2, n, x, (r2.stdout + r2.stderr)[-400:]))
    wall = time.time() - t0
    # ------------------------------------------------ evidence
    os.makedirs(EVIDENCE, exist_ok=True)
    masked = sum(known_hit.values())
    ev = {
        'property_id': pid, 'tier': tier, 'seed': int(seed) if str(seed).lstrip('-').isdigit() else 0,
        'level': 'fault_enumeration' if pid == 'C11' else 'exploration',
        'coverage': {
            'evaluations': agg['n'], 'distinct_nontrivial': len(agg['nontriv']), 'rule': spec['rule'],
            'samples': agg['samples'][:3],
            'runs_per_hour': int(agg['n'] / wall * 3600) if wall > 0 else 0,
            'simulated_steps_total': int(agg['steps']), 'events_total': agg['events'],
            'faults_fired': dict(agg['faults']), 'probes': dict(agg['probes']),
            'distinct_event_digests': len(agg['digests']), 'distinct_abstract_states': len(agg['states']),
            'run_outcomes': dict(agg['status']), 'per_job': agg['per_job'],
            'components': COMPONENTS, 'known_findings_hit': dict(known_hit), 'masked_by_known_finding': masked,
            'violations_of_other_properties_seen': dict(agg['other']),
            'workers': workers, 'exhaustive': False, 'slow_runs_not_hangs': len(slow),
            'violations_needing_interpreter_history': chained,
            'replays': [p for _, p, _, _ in confirmed],
        },
        'assumptions': [
            'observation names are unique and contain no underscore (task ids are name_clock_node)',
            'static plans come from an in-process fake of SHADOW that emits valid plans',
            'sampling, not enumeration: a clean batch is evidence over the sampled seeds only',
            'intra-step order is SimPy insertion order, perturbed only by whole-block permutation of per-observation allocation processes (F4)',
        ],
        'wall_s': round(wall, 2), 'violations': len(confirmed),
    }
    with open(os.path.join(EVIDENCE, pid + '.json'), 'w') as fp:
        json.dump(ev, fp, indent=1, sort_keys=True, default=str)
    # ------------------------------------------------ report
    for fid, n in sorted(known_hit.items()):
        f = [x for x in known['findings'] if x['id'] == fid][0]
        print('KNOWN-FINDING: property=%s %s [%s; %d runs]' % (pid, f['what'], fid, n), file=out)
    for sig, path, n, x in confirmed:
        print('VIOLATION property=%s replay=%s' % (pid, path), file=out)
        print('  signature=%s runs=%d first_seed=%s\n  %s' % (list(sig), n, x['seed'], x['v']['msg']), file=out)
    print('%s %s seed=%s: %d cases, %d distinct non-trivial, %d steps, %d events, %.1fs, outcomes=%s' % (
        pid, tier, seed, agg['n'], len(agg['nontriv']), agg['steps'], agg['events'], wall, dict(agg['status'])), file=out)
    if broken or agg['harness'] or unconfirmed:
        print('HARNESS-ERROR property=%s %s' % (pid, broken or ''), file=out)
        for h in agg['harness'][:5]:
            print('  ' + h[:1500], file=out)
        for sig, path, n, x, tail in unconfirmed:
            print('  non-replayable failure %s (%s): %s' % (list(sig), path, tail), file=out)
        return 1 if confirmed else 2
    if agg['n'] == 0:
        print('HARNESS-ERROR property=%s no case was executed' % pid, file=out)
        return 2
    return 1 if confirmed else 0
