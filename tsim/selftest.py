"""Self-tests of the machinery itself (DESIGN §2.9).

* determinism: the same cases give the same event-log digests and verdicts
  twice in one process, under another worker count, in a fresh interpreter and
  under another PYTHONHASHSEED;
* sensitivity: hand-written one-line mutations of topsim, applied to a scratch
  copy outside /repo and /verif, must each be flagged by the named property's
  check (and must keep the 30 baseline tests green, otherwise they are not
  the kind of change the checks exist for).
"""
import concurrent.futures as cf
import json
import multiprocessing as mp
import os
import shutil
import subprocess
import sys
import tempfile
import time

VERIF = os.path.dirname(os.path.dirname(os.path.abspath(__file__)))
REPO = os.environ.get('TOPSIM_REPO', '/repo')

DET_CASES = [('sim', 'general', 40), ('sim', 'adv', 30), ('sim', 'contend', 30), ('sim', 'real', 15), ('sim', 'plan', 25),
             ('sim', 'batch', 20), ('sim', 'buffer', 20), ('sim', 'delay', 10), ('cluster_ops', '-', 60),
             ('buffer_ops', '-', 60), ('units', 'units', 15), ('delaymodel', '-', 30), ('pause', 'real', 3), ('pause_sample', 'real', 6), ('taskdrv', '-', 40), ('plandrv', 'general', 20)]


def _det_one(args):
    kind, prof, i, seed = args
    from . import cases, runner
    d = runner._tmpdir()
    s = 'det/%s/%s/%s/%d' % (seed, kind, prof, i)
    case = cases.gen_case(kind, prof, s, 'quick')
    out = []
    for rep in range(2):
        o = cases.exec_case(case, d)
        out.append((o['status'], o['digest'], o['T'], o['nevents'], sorted(map(str, (runner.sig_of(v) for v in o['violations'])))))
    return (kind, prof, i), runner.case_digest(case), out


def _det_run(seed, workers, scale=1.0):
    jobs = [(k, p, i, seed) for (k, p, n) in DET_CASES for i in range(max(1, int(n * scale)))]
    res = {}
    root = tempfile.mkdtemp(prefix='tsim-run-')
    os.environ['TSIM_TMPROOT'] = root
    try:
        with cf.ProcessPoolExecutor(workers, mp_context=mp.get_context('fork')) as pool:
            for key, cd, out in pool.map(_det_one, jobs, chunksize=4):
                res['%s/%s/%d' % key] = [cd, out]
    finally:
        shutil.rmtree(root, ignore_errors=True)
        os.environ.pop('TSIM_TMPROOT', None)
    return res


def determinism(a):
    seed = a.seed
    scale = a.scale
    if a.rest and a.rest[0] == 'emit':
        json.dump(_det_run(seed, int(a.rest[1]), scale), sys.stdout)
        return 0
    t0 = time.time()
    base = _det_run(seed, 16, scale)
    bad = []
    for k, (cd, out) in base.items():
        if out[0] != out[1]:
            bad.append(('same process, run twice', k, out[0][:2], out[1][:2]))
    other = _det_run(seed, 5, scale)
    for k in base:
        if json.dumps(base[k]) != json.dumps(other[k]):
            bad.append(('16 vs 5 workers', k, base[k][1][0][:2], other[k][1][0][:2]))
    hash_dep = []
    for hs, w in (('0', 7), ('424242', 11), ('7', 16)):
        env = dict(os.environ)
        env['VERIF_HASHSEED'] = hs
        env.pop('PYTHONHASHSEED', None)
        r = subprocess.run([sys.executable, os.path.join(VERIF, 'check'), 'selftest-determinism', 'emit', str(w),
                            '--seed', str(seed), '--scale', str(scale)], capture_output=True, text=True, env=env, timeout=3000)
        try:
            fresh = json.loads(r.stdout[r.stdout.index('{'):])
        except Exception:
            print('HARNESS-ERROR selftest-determinism: fresh interpreter failed: %s' % (r.stdout + r.stderr)[-800:])
            return 2
        for k in base:
            if json.dumps(base[k]) != json.dumps(fresh[k]):
                (bad if hs == '0' else hash_dep).append(('fresh interpreter PYTHONHASHSEED=%s, %d workers' % (hs, w), k,
                                                          base[k][1][0][:2], fresh[k][1][0][:2]))
    n = len(base)
    os.makedirs(os.path.join(VERIF, 'selftest'), exist_ok=True)
    rep = dict(cases=n, seed=str(seed), mismatches=[list(map(str, b)) for b in bad],
               hash_seed_dependent=[list(map(str, b)) for b in hash_dep], wall_s=round(time.time() - t0, 1),
               runs='each case twice in-process at 16 workers, again at 5 workers, and in fresh interpreters with PYTHONHASHSEED 0/424242/7 at 7/11/16 workers')
    with open(os.path.join(VERIF, 'selftest', 'determinism.json'), 'w') as fp:
        json.dump(rep, fp, indent=1)
    print('selftest-determinism: %d cases x 5 executions, %d harness mismatches, %d hash-seed dependent, %.0fs' % (
        n, len(bad), len(hash_dep), time.time() - t0))
    for b in (bad + hash_dep)[:10]:
        print('  ', b)
    if bad:
        print('HARNESS-ERROR selftest-determinism: the harness is not deterministic')
        return 2
    if hash_dep:
        print('NOTE: digests depend on PYTHONHASHSEED only: attributed to the system under test (property C10)')
    return 0


# ---------------------------------------------------------------- sensitivity
# (id, property, file, old, new, extra check args)
MUTATIONS = [
    ('M01', 'C01', 'topsim/core/scheduler.py', 'if machine in curr_allocs or self.cluster.is_occupied(machine):',
     'if machine in curr_allocs:', [],
     [('topsim/core/cluster.py', "                    allowed = (\n                        machine in self._clusters[c]['resources']['available']\n                        or machine in self.get_idle_resources(observation))", "                    allowed = (\n                        machine in self._clusters[c]['resources']['available']\n                        or machine in self._clusters[c]['resources']['ingest']\n                        or machine in self.get_idle_resources(observation))")]),
    ('M02', 'C01', 'topsim/core/scheduler.py', 'if machine in curr_allocs or self.cluster.is_occupied(machine):',
     'if self.cluster.is_occupied(machine):', [],
     [('topsim/core/cluster.py', "                    allowed = (\n                        machine in self._clusters[c]['resources']['available']\n                        or machine in self.get_idle_resources(observation))", "                    allowed = (\n                        machine in self._clusters[c]['resources']['available']\n                        or machine in self._clusters[c]['resources']['occupied']\n                        or machine in self.get_idle_resources(observation))")]),
    ('M03', 'C03', 'topsim/core/scheduler.py', 'if pred_machine != machine:', 'if pred_machine == machine:', []),
    ('M04', 'C03', 'topsim/core/task.py', 'if predecessor_allocations:\n            yield env.timeout(',
     'if False:\n            yield env.timeout(', []),
    ('M05', 'C03', 'topsim/user/schedule/queue_allocation.py', 'if count < len(list(pred)):', 'if count < len(list(pred)) - 1:', []),
    ('M06', 'C06', 'topsim/core/task.py', 'return  max(compute_time, data_time)', 'return  min(compute_time, data_time)', []),
    ('M07', 'C07', 'topsim/core/buffer.py', "            self.current_capacity += observation.total_data_size\n            self.observations['finished'].append(observation)",
     "            self.current_capacity += observation.total_data_size - 1\n            self.observations['finished'].append(observation)", []),
    ('M08', 'C08', 'topsim/core/instrument.py', 'if self.est <= current_time \\', 'if self.est <= current_time + 1 \\', []),
    ('M09', 'C09', 'topsim/user/schedule/batch_allocation.py', 'temporary_resources = cluster.get_idle_resources(workflow_plan.id)',
     'temporary_resources = cluster.get_available_resources() + cluster.get_idle_resources(workflow_plan.id)', []),
    ('M10', 'C12', 'topsim/core/monitor.py', '            self.collate_events()\n            yield self.env.timeout(1)',
     '            self.collate_events()\n            yield self.env.timeout(2)', []),
    ('M11', 'C12', 'topsim/core/cluster.py', "                self._clusters[c]['usage_data']['running_tasks'] -= 1\n", '', []),
    ('M12', 'C05', 'topsim/core/scheduler.py', '            self.provision_ingest -= pipeline_demand\n', '            pass\n', []),
    ('M13', 'C04', 'topsim/core/scheduler.py', '            if t.task_status is not TaskStatus.FINISHED:\n                remaining_tasks.append(t)',
     '            if t.task_status not in (TaskStatus.FINISHED, TaskStatus.RUNNING):\n                remaining_tasks.append(t)', []),
    ('M14', 'C09', 'topsim/core/cluster.py', "        if observation in self._clusters[c]['resources']['idle']:\n            self._clusters[c]['resources']['idle'][observation].append(machine)\n        else:\n            self._clusters[c]['resources']['available'].append(machine)",
     "        self._clusters[c]['resources']['available'].append(machine)", []),
    ('M15', 'C10', 'topsim/user/schedule/queue_allocation.py', 'for task in sorted(task_pool, key=lambda t: t.id):', 'for task in task_pool:', []),
    ('M16', 'C11', 'topsim/core/monitor.py', '            self.simulation.scheduler.events = []\n', '', []),
    ('M17', 'C13', 'topsim/core/scheduler.py', 'self.events.append({"time": int(self.env.now), "actor": "scheduler",',
     'self.events.append({"time": int(self.env.now) + (1 if event == "removed" else 0), "actor": "scheduler",', []),
    ('M18', 'C14', 'topsim/user/plan/batch_planning.py', '                pred = list(graph.predecessors(task))\n', '                pred = list(graph.successors(task))\n', []),
    ('M19', 'C15', 'topsim/core/scheduler.py', '                if t.delay_flag:\n                    self.schedule_status = ScheduleStatus.DELAYED',
     '                if t.delay_flag and t.delay_offset > 1:\n                    self.schedule_status = ScheduleStatus.DELAYED', []),
    ('M20', 'C16', 'topsim/core/config.py', "        machine_list = []\n        timestep_multiplier = 1\n        if self.timestep_unit == 'minutes':\n            timestep_multiplier = 60\n        if self.timestep_unit == 'hours':\n            timestep_multiplier = 3600",
     "        machine_list = []\n        timestep_multiplier = 1\n        if self.timestep_unit == 'minutes':\n            timestep_multiplier = 60\n        if self.timestep_unit == 'hours':\n            timestep_multiplier = 360", []),
    ('M21', 'C17', 'topsim/user/schedule/dynamic_plan.py', '                if machine not in temporary_resources:\n                    continue',
     '                if machine not in temporary_resources:\n                    machine = temporary_resources[0]', []),
    ('M22', 'C18', 'topsim/core/buffer.py', '        if data_rate is None:\n            data_rate = self.max_data_rate\n', '        data_rate = self.max_data_rate\n', []),
    ('M23', 'C19', 'topsim/core/scheduler.py', '        return len(self.observation_queue) == 0', '        return len(self.observation_queue) <= 1', []),
    ('M24', 'C09', 'topsim/core/cluster.py', "            self._clusters[c]['resources']['idle'].pop(observation)\n            self.num_provisioned_obs -= 1",
     "            self._clusters[c]['resources']['idle'].pop(observation)", []),
    ('M25', 'C07', 'topsim/core/buffer.py', 'if time_left > 0:\n                time_left -= 1\n            else:\n                # observation.status = RunStatus.FINISHED',
     'if time_left >= 0:\n                time_left -= 1\n            else:\n                # observation.status = RunStatus.FINISHED', []),
    ('M26', 'C08', 'topsim/core/cluster.py', "                'ingest']) + pipeline_demand <= max_ingest_resources:", "                'ingest']) <= max_ingest_resources:", [],
     [('topsim/core/scheduler.py', 'if self.provision_ingest + pipeline_demand <= max_ingest:', 'if self.provision_ingest <= max_ingest:')]),
    ('M27', 'C04', 'topsim/core/buffer.py', "            self.observations['scheduled'].append(self.observations['stored'].pop())\n            return self.observations['scheduled'][-1]",
     "            self.observations['scheduled'].append(self.observations['stored'][-1])\n            return self.observations['scheduled'][-1]", []),
    ('M29', 'C05', 'topsim/core/machine.py', '            if task.task_status is TaskStatus.SCHEDULED:', '            if task.task_status is TaskStatus.SCHEDULED and task.duration != 7:', []),
    ('M28', 'C06', 'topsim/core/cluster.py', '            t.duration = observation.duration\n', '            t.duration = observation.duration + 1\n', []),
]


def _one_mutation(m, scale, keep=False):
    mid, prop, path, old, new, extra = m[:6]
    root = tempfile.mkdtemp(prefix='tsim-mut-%s-' % mid)
    rec = dict(id=mid, property=prop, file=path, old=old[:80], new=new[:80])
    try:
        src = os.path.join(root, 'repo')
        subprocess.run(['git', '-C', REPO, 'worktree', 'add', '-q', '--detach', src, 'HEAD'], check=True, capture_output=True)
        # the scratch copy must reflect the *working tree* of /repo
        diff = subprocess.run(['git', '-C', REPO, 'diff', 'HEAD'], capture_output=True, text=True).stdout
        if diff.strip():
            subprocess.run(['git', '-C', src, 'apply'], input=diff, text=True, check=True)
        edits = [(path, old, new)] + list(m[6] if len(m) > 6 else [])
        for (pth, o_, n_) in edits:
            fp = os.path.join(src, pth)
            s = open(fp).read()
            if s.count(o_) != 1:
                rec['result'] = 'catalogue-error: pattern occurs %d times in %s' % (s.count(o_), pth)
                return rec
            open(fp, 'w').write(s.replace(o_, n_))
        t = subprocess.run([sys.executable, '-m', 'pytest', '-q', '-p', 'no:cacheprovider', '--timeout=900',
                            '--continue-on-collection-errors'], cwd=src, capture_output=True, text=True,
                           env={k: v for k, v in os.environ.items() if k != 'PYTHONPATH'})
        tail = t.stdout.strip().split('\n')[-1]
        rec['tests'] = tail
        if '30 passed' not in tail:
            rec['result'] = 'mutant-breaks-tests'
            return rec
        env = dict(os.environ)
        env['TOPSIM_REPO'] = src
        env['VERIF_OUT'] = os.path.join(root, 'out')
        env.pop('PYTHONPATH', None)
        t0 = time.time()
        r = subprocess.run([sys.executable, os.path.join(VERIF, 'check'), prop, '--scale', str(scale), '--workers', '4'] + extra,
                           capture_output=True, text=True, env=env, timeout=3000)
        rec['exit'] = r.returncode
        rec['wall_s'] = round(time.time() - t0, 1)
        rec['lines'] = [l for l in r.stdout.split('\n') if l.startswith('VIOLATION') or l.startswith('  signature')
                        or 'HARNESS' in l][:6]
        rec['result'] = 'detected' if r.returncode == 1 else ('harness-error' if r.returncode == 2 else 'MISSED')
        return rec
    finally:
        subprocess.run(['git', '-C', REPO, 'worktree', 'remove', '--force', os.path.join(root, 'repo')], capture_output=True)
        shutil.rmtree(root, ignore_errors=True)


def sensitivity(a):
    only = set(a.rest)
    muts = [m for m in MUTATIONS if not only or m[0] in only or m[1] in only]
    t0 = time.time()
    out = []
    with cf.ThreadPoolExecutor(4) as ex:
        for rec in ex.map(lambda m: _one_mutation(m, a.scale), muts):
            out.append(rec)
            print('%s %s %-22s %s %s' % (rec['id'], rec['property'], rec['result'], rec.get('wall_s', ''), (rec.get('lines') or [''])[0:2]))
            sys.stdout.flush()
    # the unmodified tree must stay quiet (same scale)
    os.makedirs(os.path.join(VERIF, 'selftest'), exist_ok=True)
    if not only:
        with open(os.path.join(VERIF, 'selftest', 'sensitivity.json'), 'w') as fp:
            json.dump(dict(scale=a.scale, results=out, wall_s=round(time.time() - t0, 1)), fp, indent=1)
    missed = [r for r in out if r['result'] != 'detected']
    print('selftest-sensitivity: %d mutations, %d detected, %d not: %s' % (len(out), len(out) - len(missed), len(missed),
                                                                            [(r['id'], r['result']) for r in missed]))
    return 0 if not missed else 1


def main(name, a):
    if name == 'selftest-determinism':
        return determinism(a)
    if name == 'selftest-sensitivity':
        return sensitivity(a)
    print('unknown selftest')
    return 2
