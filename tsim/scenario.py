"""Seeded scenario generator (DESIGN §2.2).  One integer decides everything.

A scenario is a JSON-serialisable dict and *is* the replay-file body.  All
physical quantities (what goes into the topsim config file) are integers;
step-level quantities are ``physical * k`` (rates, speeds) or
``physical / k`` (times), with times generated as whole multiples of ``k``.
"""
import hashlib
import json
import math
import random
import re

UNIT_FACTOR = {'seconds': 1, 'minutes': 60, 'hours': 3600}


def unit_factor(unit):
    if isinstance(unit, int):
        return unit
    # only the three documented spellings are units; any other string is the default (seconds) - in all three
    # configuration sections alike
    return UNIT_FACTOR.get(unit, 1)


def sc_digest(sc):
    return hashlib.sha1(json.dumps(sc, sort_keys=True).encode()).hexdigest()[:16]


# ---------------------------------------------------------------- step view
class StepView(object):
    """Step-level quantities derived from the scenario's physical values ×
    unit factor — *never* from what topsim parsed."""

    def __init__(self, sc):
        self.sc = sc
        k = self.k = unit_factor(sc['unit'])
        self.cpu = {m: v['flops'] * k for m, v in sc['machines'].items()}
        self.bw = {m: v['compute_bandwidth'] * k for m, v in sc['machines'].items()}
        self.hot_rate = sc['hot']['max_ingest_rate'] * k
        self.cold_rate = sc['cold']['max_data_rate'] * k
        self.obs = {}
        for o in sc['obs']:
            rate = round(o['data_product_rate'] * k)
            dur = o['duration'] / k
            self.obs[o['name']] = dict(
                est=o['start'] / k, dur=dur, rate=rate, vol=rate * dur,
                demand=o['instrument_demand'], ingest=o['ingest_demand'],
                wf=o['wf'])

    def runtime(self, node, machine):
        comp, data = node[0], node[1] or 0
        return max(int(comp / self.cpu[machine]), int(data / self.bw[machine]))

    def nodes(self, oname):
        wf = self.sc['wfs'][self.obs[oname]['wf']]
        return wf_nodes(wf)

    def edges(self, oname):
        wf = self.sc['wfs'][self.obs[oname]['wf']]
        return [(int(u), int(v), vol) for u, v, vol in wf['edges']]


_TRAIL = re.compile(r'(\d+)$')


def node_of_tid(tid):
    """Workflow node number of a task id ``<observation>_<clock>_<node label>`` (labels are ints or 'n<int>')."""
    try:
        m = _TRAIL.search(tid.rsplit('_', 1)[1])
        return int(m.group(1)) if m else None
    except Exception:
        return None


def node_label(wf, n):
    """What the workflow file calls node ``n``: the integer itself, or a name such as 'n3' (legal: ids are only
    ever converted with str())."""
    lab = wf.get('label')
    if lab == 'mixed':
        # numbers and names in one workflow (legal: ids are only ever converted with str())
        return int(n) if int(n) % 2 == 0 else 'n%d' % int(n)
    return int(n) if not lab else '%s%d' % (lab, int(n))


def wf_nodes(wf):
    """{node id: [comp, data]} - nodes are stored as an ordered list [[id, comp, data], ...] (file order)."""
    return {int(n[0]): [n[1], n[2]] for n in wf['nodes']}


def feasible(sc):
    """Independent feasibility predicate (property C05's premise)."""
    v = StepView(sc)
    M = len(sc['machines'])
    for name, o in v.obs.items():
        # whole timesteps only: topsim itself calls a fractional timestep duration a configuration error
        # (message of Buffer.check_buffer_capacity), and rate x duration is otherwise not what gets deposited
        if o['dur'] < 1 or o['dur'] != int(o['dur']):
            return False
        if o['demand'] > sc['arrays']:
            return False
        if o['ingest'] > min(sc['max_ingest'], M):
            return False
        if not (o['vol'] < sc['hot']['capacity']):
            return False
        if not (o['vol'] <= sc['cold']['capacity']):
            return False
        if o['rate'] > v.hot_rate:
            return False
    if sc['pairing'] == 'batch':
        ap = sc['alg_params']
        if ap.get('resource_split'):
            for name in v.obs:
                mn, mx = ap['resource_split'][name]
                if mn > M or mx < mn or mx < ap['min_resources_per_workflow'] \
                        or mn < ap['min_resources_per_workflow']:
                    return False
        else:
            # the configured reservation must be obtainable on an idle cluster and hold at least one machine
            if int(M / ap['max_resource_partitions']) < max(1, ap['min_resources_per_workflow']):
                return False
            if ap['min_resources_per_workflow'] < 0:
                return False
    return True


L_O = 8
L_T = 4


def serial_bound(sc, extra_delay=0, extra_stall=0):
    """The analytic serial bound of property C05, in timesteps."""
    v = StepView(sc)
    # a negative cold rate is the shipped 'real-time' mode: the cold tier is an extension of the hot one and a
    # tier move takes a single step
    minrate = min(v.hot_rate, v.cold_rate) if v.cold_rate > 0 else float('inf')
    minbw = min(v.bw.values())
    B = max(math.ceil(o['est']) for o in v.obs.values())
    for name, o in v.obs.items():
        B += math.ceil(o['dur']) + 2 * max(1 if minrate == float('inf') else 0,
                                           math.ceil(math.ceil(o['dur']) * o['rate'] / minrate)) + L_O
        nodes = v.nodes(name)
        edges = v.edges(name)
        for n, nd in nodes.items():
            rt = max(1, max(v.runtime(nd, m) for m in sc['machines']))
            inv = [vol for (a, b, vol) in edges if b == n]
            B += rt + (math.ceil(max(inv) / minbw) if inv else 0) + L_T
    return int(B + extra_delay + extra_stall)


# ----------------------------------------------------------------- generator
PAIRINGS = ('batch', 'queue', 'dynamic', 'greedy')


def _dag(rng, n, shape):
    edges = []
    if shape == 'single' or n == 1:
        return edges
    if shape == 'chain':
        edges = [(i, i + 1) for i in range(n - 1)]
    elif shape == 'forkjoin' and n >= 3:
        edges = [(0, i) for i in range(1, n - 1)] + [(i, n - 1) for i in range(1, n - 1)]
    elif shape == 'diamond' and n >= 4:
        edges = [(0, 1), (0, 2), (1, 3), (2, 3)] + [(3, i) for i in range(4, n)]
    elif shape == 'disconnected' and n >= 2:
        h = n // 2
        edges = [(i, i + 1) for i in range(h - 1)] + [(i, i + 1) for i in range(h, n - 1)]
    else:
        p = rng.choice([0.25, 0.4, 0.6])
        for v in range(1, n):
            for u in range(v):
                if rng.random() < p:
                    edges.append((u, v))
    return edges


BIG = {'nm': {3: 8, 4: 15, 5: 20, 6: 17, 8: 20, 10: 10, 12: 10}, 'nobs': {2: 12, 3: 25, 4: 25, 5: 20, 6: 10, 7: 8},
       'ntasks': {3: 8, 4: 12, 5: 12, 6: 18, 8: 18, 10: 10, 12: 10, 15: 6, 18: 4, 36: 2}}


def gen(seed, profile='general', big=False):
    """Return a scenario dict.  ``seed`` is any hashable printable value.
    ``big``: larger clusters / plans / workflows (thorough tier)."""
    rng = random.Random('scen/%s/%s%s' % (profile, seed, '/big' if big else ''))
    P = dict(PROFILES.get(profile, {}))
    if big:
        P.update(BIG)

    def pick(key, default):
        w = P.get(key, default)
        items, weights = zip(*w.items()) if isinstance(w, dict) else (w, None)
        return rng.choices(items, weights)[0] if weights else rng.choice(items)

    monitor = P.get('monitor', 'light')
    if monitor == 'light' and rng.random() < P.get('real_share', 0.07):
        monitor = 'real'        # the real per-timestep monitor (its to_df() calls are part of the system) in a share of every profile
    unit = pick('unit', {'seconds': 60, 'custom': 20, 'minutes': 10, 'hours': 10})
    if unit == 'custom':
        unit = rng.randint(2, 7)
        if rng.random() < P.get('big_units', 0.15):
            unit = rng.choice([10, 12, 30, 49, 75, 90, 150, 300, 600, 900])
    if unit == 'misspelt':
        # (a custom unit must be a JSON integer: a float such as 120.0 is not one, in any section)
        unit = rng.choice(['Minutes', 'HOURS', ' minutes', 'hour', 'min', 'Seconds', 120.0, 60.0])
    k = unit_factor(unit)

    nm = pick('nm', {1: 8, 2: 22, 3: 25, 4: 20, 5: 15, 6: 10})
    hetero = rng.random() < P.get('hetero', 0.5)
    f0, b0 = rng.choice([1, 2, 5, 10]), rng.choice([1, 2, 5])
    machines = {}
    for i in range(nm):
        if hetero:
            machines['m%d' % i] = {'flops': rng.choice([1, 2, 4, 5, 10]),
                                   'compute_bandwidth': rng.choice([1, 2, 5])}
        else:
            machines['m%d' % i] = {'flops': f0, 'compute_bandwidth': b0}
    # (not under the real monitor: very slow machines stretch the serial bound to many hundreds of timesteps, and the
    # real monitor's per-step table concatenation makes such runs cost tens of seconds)
    if monitor == 'light' and rng.random() < P.get('frac_speed', 0.06):
        # machine speeds / bandwidths that are not whole numbers
        for m_ in machines.values():
            m_['flops'] = rng.choice([0.1, 0.2, 0.4, 2.5])
            if rng.random() < 0.5:
                m_['compute_bandwidth'] = rng.choice([0.1, 0.4, 0.5])
    ref = dict(machines['m0'])
    cpu_ref, bw_ref = ref['flops'] * k, ref['compute_bandwidth'] * k
    if rng.random() < P.get('numeric_ids', 0.12):
        # purely numeric machine names, not zero-based (legal: ids are dictionary keys of the configuration)
        machines = {str(i + 1): machines['m%d' % i] for i in range(nm)}
    elif rng.random() < P.get('prefix_ids', 0.1):
        # names of which one is a prefix of another (m1, m10, m11, ...)
        pn = ['m1', 'm10', 'm11', 'm12', 'm100', 'm101', 'm13', 'm14', 'm2', 'm20', 'm21', 'm3']
        machines = {pn[i]: machines['m%d' % i] for i in range(nm)}
    machine_order = None
    if nm > 1 and rng.random() < P.get('shuffle_machines', 0.25):
        # the configuration need not list the machines in name order
        machine_order = list(machines)
        rng.shuffle(machine_order)

    arrays = rng.randint(1, 4)
    max_ingest = rng.randint(1, nm)
    if rng.random() < P.get('wide_limit', 0.08):
        max_ingest = nm + rng.randint(1, 2)     # an ingest-machine limit above the size of the cluster (legal)
    nobs = pick('nobs', {1: 25, 2: 40, 3: 25, 4: 10})
    hot_rate = rng.choice([2, 5, 10])
    cold_rate = rng.choice([1, 2, 5, 10, 20])
    if rng.random() < P.get('real_time', 0.04):
        cold_rate = -1          # 'real-time' mode of the shipped real_time configuration
    pattern = pick('pattern', {'gaps': 25, 'b2b': 25, 'simul': 18, 'overlap': 27, 'crowd': 5})
    crowd_gap = 0
    if pattern == 'crowd':
        nobs = max(nobs, rng.choice([4, 4, 5]))
        crowd_gap = rng.choice([0, 1, 1, 2, 3])

    obs = []
    t = rng.choice([0, 0, 1, 3])
    late_exact = False
    if monitor == 'light' and rng.random() < P.get('late', 0.025):
        t = rng.choice([990, 993, 996, 998, 999, 1000])      # the run crosses t = 1000
        late_exact = rng.random() < 0.5                      # ... the first observation ending exactly there
    names = ['o%d' % i for i in range(nobs)]
    if rng.random() < 0.3:
        pool = ['emu', 'dingo', 'wallaby', 'vast', 'flash', 'possum', 'gaskap', 'craft']
        rng.shuffle(pool)
        names = pool[:nobs]
    for i in range(nobs):
        dur = pick('dur', {1: 15, 2: 19, 3: 19, 4: 14, 5: 10, 6: 7, 7: 5, 8: 5, 9: 3, 10: 3})
        if rng.random() < P.get('long_dur', 0.04):
            dur = rng.choice([14, 15, 28, 31])
        if monitor == 'light' and i == 0 and nobs >= 2 and rng.random() < P.get('very_long', 0.006):
            dur = rng.choice([520, 610])        # one observation that keeps its ingest machines for hundreds of steps
        if k >= 10 and rng.random() < P.get('float_dur', 0.35):
            # durations whose conversion to timesteps is sensitive to how the division is written
            # (x * (1 / k) != x / k in floating point for these)
            cand = [d_ for d_ in range(1, 32) if (d_ * k) * (1.0 / k) != d_]
            if cand:
                dur = rng.choice(cand[:6])
        if i == 0:
            start = t
            if late_exact and dur < 400:
                start = 1000 - dur + rng.choice([0, 0, 1])
        elif pattern == 'gaps':
            start = t + rng.randint(1, 12)
        elif pattern == 'b2b':
            start = t
        elif pattern == 'crowd':
            # all but the first fall due in the same timestep, while the first one's workflow keeps machines busy
            start = obs[0]['_s'] + obs[0]['_d'] + crowd_gap
        elif pattern == 'simul':
            start = obs[-1]['_s'] if rng.random() < 0.7 else t
        else:
            ps, pd = obs[-1]['_s'], obs[-1]['_d']
            start = ps + rng.randint(0, max(0, pd - 1))
        off = 0
        if k > 1 and rng.random() < P.get('frac_start', 0.3):
            off = rng.randint(1, k - 1)          # planned start falls inside a timestep
        obs.append({'name': names[i], '_s': start, '_d': dur,
                    'start': start * k + off, 'duration': dur * k,
                    'instrument_demand': rng.randint(1, arrays),
                    'data_product_rate': rng.randint(1, hot_rate),
                    'ingest_demand': rng.randint(1, max_ingest),
                    'wf': i})
        t = max(t, start + dur)
    if rng.random() < P.get('wf_bounds', 0.1):
        # optional per-observation workflow resource bounds: legal, parsed, absent from the shipped configurations
        o = rng.choice(obs)
        o['min_workflow_resources'] = 1
        o['max_workflow_resources'] = rng.randint(1, nm)
    if rng.random() < P.get('zero_rate', 0.06):
        rng.choice(obs)['data_product_rate'] = 0          # an observation that produces no data (legal)
    if pattern == 'crowd':
        # three or more observations due together that fit the telescope together; whether the machines and the
        # ingest limit suffice for all of them is left to chance
        arrays = max(arrays, nobs)
        left = arrays
        for i, o in enumerate(obs):
            o['instrument_demand'] = 1 if rng.random() < 0.7 else rng.randint(1, max(1, left - (nobs - 1 - i)))
            left -= o['instrument_demand']
        if rng.random() < 0.6:
            max_ingest = nm
        for o in obs:
            o['ingest_demand'] = rng.randint(1, max(1, min(max_ingest, 2)))
    elif P.get('subarray') or rng.random() < 0.3:
        # overlapping sub-array observations: demands that fit together
        for o in obs:
            o['instrument_demand'] = rng.randint(1, max(1, arrays // 2))
    if pattern != 'crowd' and rng.random() < P.get('small_ingest', 0.35):
        for o in obs:
            o['ingest_demand'] = 1
    if rng.random() < P.get('zero_ingest', 0.03):
        rng.choice(obs)['ingest_demand'] = 0        # a pipeline that needs no ingest machine (legal)
    if rng.random() < P.get('frac_rate', 0.08):
        # a data rate that is not a whole number (the configuration parser rounds rate x unit to a whole amount)
        x = rng.choice([0.4, 1.3, 2.7, 1.0 / 3, 4.6])
        rng.choice(obs)['data_product_rate'] = x if round(x * k) <= hot_rate * k else 0.4

    vols = [round(o['data_product_rate'] * k) * o['_d'] for o in obs]
    regime = pick('buffer', {'ample': 83, 'wait': 7, 'tight': 5, 'over': 3, 'exact': 2})
    vmax, vsum = max(max(vols), 1), max(sum(vols), 1)
    if regime == 'ample':
        hot_cap = int(vsum / rng.choice([0.2, 0.4, 0.55])) + 1
    elif regime == 'wait':
        hot_cap = int(vmax / 0.55)
    elif regime == 'tight':
        hot_cap = vmax + rng.randint(1, max(1, vmax // 2))
    elif regime == 'exact':
        # numeric coincidences: the second observation fits exactly into what the first leaves free; the first
        # fills the buffer exactly to its 0.6 tiering threshold; the smallest capacity that is feasible at all
        opts = [vmax + 1]
        if len(vols) >= 2 and vols[0] + vols[1] > vmax:
            opts += [vols[0] + vols[1]] * 2
        if vols[0] % 3 == 0 and vols[0] > 0:
            opts += [vols[0] * 5 // 3] * 2
        hot_cap = rng.choice(opts)
    else:
        hot_cap = int(vmax / rng.choice([0.65, 0.8, 0.95]))
    hot_cap = max(hot_cap, vmax + 1)
    huge = rng.random() < P.get('huge_caps', 0.05)
    cregime = pick('cold', {'ample': 75, 'tight': 25})
    cold_cap = vsum + rng.randint(0, vsum) if cregime == 'ample' else vmax + rng.randint(0, max(1, vsum - vmax))
    if rng.random() < P.get('frac_caps', 0.04):
        hot_cap += 0.5          # capacities and tier rates need not be whole numbers
        cold_cap += 0.5
        if cold_rate > 0 and rng.random() < 0.5:
            cold_rate = rng.choice([2.5, 0.5, 7.5])
    if huge:
        # capacities of the order of the shipped configurations (5e11): data held is a 1e-10 fraction
        hot_cap *= 10 ** 10
        cold_cap *= 10 ** 10
    for o in obs:
        del o['_s'], o['_d']
    if rng.random() < P.get('shuffle_plan', 0.25):
        # the plan need not be listed in start order (the telescope examines it in list order)
        order = list(range(nobs))
        rng.shuffle(order)
        obs = [obs[i] for i in order]

    wfs = []
    share_wf = rng.random() < 0.15
    for i in range(nobs):
        if share_wf and i > 0:
            obs[i]['wf'] = 0
            continue
        n = pick('ntasks', {1: 15, 2: 20, 3: 20, 4: 15, 5: 10, 6: 10, 8: 10})
        if monitor == 'light' and rng.random() < P.get('huge_wf', 0.008):
            n = rng.choice([33, 36, 40])        # a workflow of more than thirty tasks
        shape = pick('shape', {'single': 8, 'chain': 18, 'forkjoin': 18, 'diamond': 14,
                               'disconnected': 12, 'random': 30})
        # node ids are permuted and the file order shuffled in half of the workflows, so that neither
        # id order nor file order is a topological order
        perm = list(range(n))
        order = list(range(n))
        if rng.random() < 0.5:
            rng.shuffle(perm)
            rng.shuffle(order)
        nodes = [None] * n
        for j in range(n):
            cm = pick('comp', {0: 12, 0.4: 10, 1: 22, 1.5: 10, 2: 18, 3: 14, 4: 8, 6: 6})
            dm = rng.choice([None, None, 0, 0.5, 1, 3])
            nodes[j] = [perm[j], cm * cpu_ref, None if dm is None else dm * bw_ref]
        nodes = [nodes[j] for j in order]
        edges = [[perm[u], perm[v], rng.choice([0, 0.3, 1, 2.5, 4]) * bw_ref] for u, v in _dag(rng, n, shape)]
        wf = {'nodes': nodes, 'edges': edges}
        if rng.random() < P.get('named_nodes', 0.2):
            wf['label'] = rng.choice(['n', 'n', 'mixed'])       # node ids are names ('n3'), or names and numbers mixed
        wfs.append(wf)
    for o in obs:
        if o['wf'] >= len(wfs):
            o['wf'] = 0

    pairing = pick('pairing', {'batch': 35, 'queue': 25, 'dynamic': 25, 'greedy': 15})
    ap = {}
    if pairing == 'batch':
        parts = rng.randint(1, 3)
        mn = rng.randint(1, max(1, nm // parts))
        if rng.random() < 0.1:
            mn = 0          # legal, degenerate: "no minimum
        ap = {'max_resource_partitions': parts, 'min_resources_per_workflow': mn,
              'resource_split': None}
        unsat = rng.random() < 0.04
        if unsat:
            # a minimum no reservation can ever satisfy on this cluster (infeasible for C05; whatever happens, no
            # reservation below the minimum may appear)
            ap['min_resources_per_workflow'] = nm + rng.randint(1, 2)
        if unsat:
            pass
        elif rng.random() < 0.05:
            ap['resource_split'] = {}           # explicitly empty (what topsim's own experiment helper passes)
        elif rng.random() < 0.25:
            split = {}
            for o in obs:
                lo = rng.randint(max(mn, 1), nm)
                # (the maximum is a cap: it may exceed the size of the cluster)
                split[o['name']] = [lo, rng.randint(lo, nm) if rng.random() < 0.8 else nm + rng.randint(1, 5)]
            ap['resource_split'] = split
    static = {'seed': rng.randint(0, 10 ** 6),
              'style': rng.choice(['single', 'rr', 'random', 'eft'])}

    faults = {'delays': {}, 'delay_model': None, 'adv': None, 'stalls': {},
              'perm': None, 'pauses': []}
    fk = P.get('faults', {'F1': 0.35, 'F1m': 0.1, 'F2': 0.0, 'F3': 0.15, 'F4': 0.3})
    if rng.random() < fk.get('F1', 0):
        for o in obs:
            wf = wfs[o['wf']]
            succ = {u for u, v, _ in wf['edges']}
            for n in sorted(x[0] for x in wf['nodes']):
                p = 0.45 if int(n) in succ else 0.25
                if rng.random() < p:
                    faults['delays']['%s:%s' % (o['name'], n)] = rng.choice([1, 1, 2, 3, 5])
    elif rng.random() < fk.get('F1m', 0):
        faults['delay_model'] = {'prob': rng.choice([0.0, 0.3, 1.0]),
                                 'dist': rng.choice(P.get('dists', ['normal'])),
                                 'degree': rng.choice(['LOW', 'MID', 'HIGH', 'NONE']),
                                 'seed': rng.choice([20, 0, 1, 7, 12345]), 'np_seed': rng.random() < 0.3}
    if rng.random() < fk.get('F2', 0):
        if rng.random() < 0.55:
            # proposals that the scheduler must *skip*: the run is expected to complete (C04 under F2)
            kinds = rng.sample(['busy', 'ingest', 'dup', 'free'], rng.randint(1, 4))
        else:
            # includes proposals that must be *rejected with an error*: the run aborts at the first one
            kinds = rng.sample(['busy', 'ingest', 'dup', 'free', 'foreign', 'steal', 'unknown', 'resched'], rng.randint(1, 8))
        faults['adv'] = {'seed': rng.randint(0, 10 ** 6), 'rate': rng.choice([0.1, 0.2, 0.35, 0.6]), 'kinds': kinds}
    if rng.random() < fk.get('F3', 0):
        for o in obs:
            if rng.random() < 0.6:
                faults['stalls'][o['name']] = sorted(rng.sample(range(0, 12), rng.randint(1, 4)))
    if rng.random() < fk.get('F4', 0):
        faults['perm'] = {'seed': rng.randint(0, 10 ** 6)}
    if rng.random() < P.get('copy_machines', 0.05):
        faults['copy_machines'] = True      # legal user algorithm: hands back equal copies of the cluster's Machine objects
    if rng.random() < P.get('ontime_status', 0.06):
        faults['ontime_status'] = True      # legal user algorithm: reports ON_TIME instead of SCHEDULED while it works
    if pairing == 'batch' and rng.random() < P.get('norelease', 0.25):
        faults['norelease'] = True      # legal user algorithm: reserves, leaves the release to the Scheduler
    if rng.random() < P.get('overrun', 0.0):
        faults['overrun'] = rng.choice([1, 2, 4])      # timesteps simulated after the run has completed

    if rng.random() < P.get('overrate', 0.0):
        o = rng.choice(obs)
        o['data_product_rate'] = hot_rate + rng.randint(1, 3)
    sc = {'unit': unit, 'machines': machines, 'arrays': arrays, 'max_ingest': max_ingest,
          'hot': {'capacity': hot_cap, 'max_ingest_rate': hot_rate},
          'cold': {'capacity': cold_cap, 'max_data_rate': cold_rate},
          'obs': obs, 'wfs': wfs, 'pairing': pairing, 'alg_params': ap, 'static': static,
          'machine_order': machine_order,
          'pipeline_order': rng.choice(['plan', 'plan', 'reversed', 'reversed', 'extra']),
          'cluster_header': ({'time': 'false', 'generator': 'hpconfig', 'architecture': {'cpu': {'XeonIvyBridge': nm}, 'gpu': {}},
                              'gen_specs': {'file': 'x.json', 'seed': 20, 'range': '[(10, 10)]',
                                            'heterogeneity': rng.choice([0, 0, 0.4, 1]), 'multiplier': 1}}
                             if rng.random() < P.get('cluster_header', 0.15) else None),
          'faults': faults, 'monitor': monitor,
          'meta': {'profile': profile, 'seed': str(seed), 'regime': regime, 'pattern': pattern}}
    return sc


# Per-property generator bias (only changes the bias and fault mix).
PROFILES = {
    'general': {},
    'adv': {'faults': {'F1': 0.25, 'F2': 1.0, 'F3': 0.1, 'F4': 0.3},
            'pairing': {'batch': 45, 'queue': 35, 'dynamic': 20},
            'buffer': {'ample': 95, 'wait': 5}, 'nm': {2: 20, 3: 30, 4: 25, 5: 15, 6: 10},
            'nobs': {2: 40, 3: 40, 4: 20}, 'pattern': {'b2b': 30, 'overlap': 50, 'simul': 20},
            'small_ingest': 0.7},
    'contend': {'nobs': {2: 35, 3: 40, 4: 25}, 'pattern': {'overlap': 40, 'b2b': 30, 'simul': 18, 'crowd': 12},
                'buffer': {'ample': 85, 'wait': 10, 'tight': 5}, 'subarray': True,
                'small_ingest': 0.6,
                'faults': {'F1': 0.4, 'F3': 0.15, 'F4': 0.45}},
    'batch': {'pairing': {'batch': 100}, 'nobs': {2: 35, 3: 40, 4: 25},
              'nm': {2: 15, 3: 25, 4: 25, 5: 20, 6: 15},
              'pattern': {'overlap': 45, 'b2b': 35, 'simul': 10, 'gaps': 10},
              'buffer': {'ample': 90, 'wait': 10}, 'small_ingest': 0.6,
              'faults': {'F1': 0.3, 'F3': 0.15, 'F4': 0.4}},
    'plan': {'pairing': {'dynamic': 100}, 'hetero': 0.8, 'nobs': {1: 15, 2: 40, 3: 30, 4: 15},
             'pattern': {'overlap': 45, 'b2b': 35, 'simul': 10, 'gaps': 10},
             'buffer': {'ample': 90, 'wait': 10},
             'faults': {'F1': 0.4, 'F3': 0.15, 'F4': 0.4}},
    'live': {'buffer': {'ample': 46, 'wait': 24, 'tight': 14, 'over': 9, 'exact': 7},
             'pattern': {'gaps': 15, 'b2b': 22, 'simul': 25, 'overlap': 26, 'crowd': 12},
             'faults': {'F1': 0.35, 'F3': 0.2, 'F4': 0.3}},
    'buffer': {'buffer': {'ample': 56, 'wait': 19, 'tight': 15, 'over': 4, 'exact': 6}, 'overrate': 0.06,
               'pattern': {'b2b': 30, 'overlap': 50, 'simul': 10, 'gaps': 10},
               'nobs': {2: 40, 3: 40, 4: 20}, 'faults': {'F1': 0.3, 'F4': 0.2}},
    'real': {'monitor': 'real', 'overrun': 0.25, 'zero_rate': 0.12, 'dur': {1: 20, 2: 25, 3: 25, 4: 15, 5: 15}, 'big_units': 0.4,
             'ntasks': {1: 20, 2: 25, 3: 25, 4: 15, 5: 15},
             'unit': {'seconds': 72, 'custom': 18, 'minutes': 5, 'hours': 5},
             'pattern': {'overlap': 45, 'b2b': 25, 'simul': 10, 'gaps': 20},
             'buffer': {'ample': 88, 'wait': 8, 'tight': 4},
             'faults': {'F1': 0.3, 'F1m': 0.15, 'F3': 0.0, 'F4': 0.25}},
    'repro': {'monitor': 'real', 'hetero': 0.9, 'dur': {1: 25, 2: 30, 3: 25, 4: 20},
              'ntasks': {3: 20, 4: 25, 5: 20, 6: 20, 8: 15},
              'shape': {'forkjoin': 35, 'random': 35, 'disconnected': 15, 'diamond': 15},
              'nm': {2: 20, 3: 30, 4: 30, 5: 20},
              'unit': {'seconds': 100}, 'buffer': {'ample': 84, 'wait': 5, 'over': 8, 'exact': 3},
              'dists': ['normal', 'poisson', 'uniform'],
              'faults': {'F1': 0.0, 'F1m': 0.5, 'F3': 0.0, 'F4': 0.0}},
    'gdelay': {'pairing': {'greedy': 60, 'dynamic': 40}, 'hetero': 0.9, 'nm': {2: 20, 3: 35, 4: 30, 5: 15},
               'faults': {'F1': 0.75, 'F1m': 0.25, 'F3': 0.0, 'F4': 0.2}, 'buffer': {'ample': 95, 'wait': 5},
               'dists': ['normal', 'poisson', 'uniform'], 'nobs': {1: 40, 2: 40, 3: 20}},
    'delay': {'faults': {'F1': 0.6, 'F1m': 0.4, 'F3': 0.0, 'F4': 0.2},
              'buffer': {'ample': 95, 'wait': 5}, 'monitor': 'real',
              'dur': {1: 25, 2: 30, 3: 25, 4: 20}, 'unit': {'seconds': 90, 'custom': 10},
              'dists': ['normal', 'normal', 'poisson', 'uniform']},
    'units': {'real_time': 0.05, 'frac_caps': 0.0, 'zero_ingest': 0.0, 'unit': {'custom': 55, 'minutes': 18, 'hours': 18, 'misspelt': 9}, 'hetero': 0.0, 'frac_start': 0.0, 'big_units': 0.4, 'zero_rate': 0.06,
              'frac_rate': 0.0, 'frac_speed': 0.0,
              'comp': {1: 40, 2: 30, 3: 20, 4: 10},
              'dur': {1: 40, 2: 35, 3: 25}, 'buffer': {'ample': 87, 'wait': 5, 'over': 8},
              'nobs': {1: 45, 2: 40, 3: 15}, 'ntasks': {1: 25, 2: 30, 3: 25, 4: 20},
              'faults': {'F1': 0.0, 'F3': 0.0, 'F4': 0.0}},
}
