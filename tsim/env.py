"""VerifEnv: the SimPy event loop the harness owns (DESIGN §2.1).

* spawn / exit log read through the ``env.process`` seam (no topsim class is
  patched);
* global event sequence number;
* beginning-of-timestep snapshots and after-every-event monitor hook;
* analytic step budget (bounds ``Simulation.start``'s unbounded loop);
* optional block permutation of concurrent per-observation allocation
  processes (fault kind F4);
* event-log digest.

No path in here draws from a PRNG except ``_permute`` (keyed on (seed, t)),
and nothing reads a clock.
"""
import hashlib
import heapq
import random

import simpy
from simpy.core import NORMAL
from simpy.events import Process


class BudgetExceeded(Exception):
    """The next event lies beyond the analytic bound of the run."""


# locals captured per generator name at spawn time (before the first resume)
_CAPTURE = {
    'allocate_task_to_cluster': ('task', 'machine', 'observation', 'ingest',
                                 'predecessor_allocations'),
    'do_work': ('self', 'machine', 'predecessor_allocations'),
    'allocate_tasks': ('observation',),
    'allocate_ingest': ('observation',),
    'ingest_data_stream': ('observation',),
    'provision_ingest_resources': ('demand', 'observation'),
    'move_hot_to_cold': ('b',),
    'move_cold_to_hot': ('b',),
    'run': ('self',),
}


class Rec(object):
    """One spawned process."""
    __slots__ = ('idx', 'name', 'loc', 'spawn', 'exit', 'proc', 'parent',
                 'first', 'extra')

    def __init__(self, idx, name, loc, spawn, proc, parent):
        self.idx = idx
        self.name = name
        self.loc = loc
        self.spawn = spawn      # (now, seq) at env.process(...)
        self.exit = None        # (now, seq) of the event in which the generator returned
        self.proc = proc
        self.parent = parent    # Rec of the creating process or None
        self.first = None       # (now, seq) of first resume
        self.extra = {}

    def __repr__(self):
        return 'Rec(%d %s %s..%s)' % (self.idx, self.name, self.spawn, self.exit)


def _proc_of(event):
    cbs = event.callbacks
    if cbs:
        for cb in cbs:
            s = getattr(cb, '__self__', None)
            if isinstance(s, Process):
                return s
    return None


class VerifEnv(simpy.Environment):

    def __init__(self, budget=10 ** 9, perm_seed=None, perm_explicit=None,
                 digest=True):
        super().__init__()
        self.process = self._spawn          # the seam
        self.seq = 0
        self.budget = budget
        self.log = []                       # all Rec
        self.open = []                      # Rec whose generator has not returned
        self.by_proc = {}
        self.sim = None
        self.hooks = None                   # object with on_spawn/on_exit/after_event/on_boundary
        self.next_boundary = 0
        self.nevents = 0
        # F4
        self.perm_seed = perm_seed
        self.perm_explicit = perm_explicit  # {str(t): [block order]} for replay/shrink
        self.perm_trace = {}                # what was actually applied
        self.perm_changed = 0
        self._lastperm = -1
        self._digest = hashlib.sha1() if digest else None
        self.failed = None

    # ------------------------------------------------------------------ spawn
    def _spawn(self, gen):
        p = Process(self, gen)
        code = getattr(gen, 'gi_code', None)
        name = code.co_name if code is not None else '?'
        loc = {}
        fr = getattr(gen, 'gi_frame', None)
        if fr is not None:
            fl = fr.f_locals
            for k in _CAPTURE.get(name, ()):
                if k in fl:
                    loc[k] = fl[k]
        parent = self.by_proc.get(self.active_process)
        rec = Rec(len(self.log), name, loc, (self.now, self.seq), p, parent)
        self.log.append(rec)
        self.open.append(rec)
        self.by_proc[p] = rec
        if self._digest is not None:
            self._digest.update(('S%s:%d:%s:%s|' % (
                self.now, self.seq, name,
                parent.name if parent else '-')).encode())
        if self.hooks is not None:
            self.hooks.on_spawn(rec)
        return p

    # ------------------------------------------------------------------- step
    def step(self):
        q = self._queue
        proc = None
        if q:
            head = q[0]
            t = head[0]
            if t > self.budget:
                raise BudgetExceeded(t)
            if self.sim is not None:
                while t >= self.next_boundary:
                    if self.hooks is not None:
                        self.hooks.on_boundary(self.next_boundary)
                    self.next_boundary += 1
            if (head[1] == NORMAL and t > self._lastperm and t == int(t)
                    and (self.perm_seed is not None
                         or self.perm_explicit is not None)):
                self._lastperm = t
                self._permute(t)
                head = q[0]
            proc = _proc_of(head[3])
        self.seq += 1
        self.nevents += 1
        rec = self.by_proc.get(proc) if proc is not None else None
        if rec is not None and rec.first is None:
            rec.first = (q[0][0], self.seq)
        if self._digest is not None:
            self._digest.update(('E%s:%s|' % (
                q[0][0] if q else '-', rec.name if rec else '-')).encode())
        super().step()
        if rec is not None and self.hooks is not None:
            self.hooks.on_resume(rec)
        # exits: the event during which the generator returned
        if self.open:
            still = None
            for r in self.open:
                if r.proc.triggered:
                    r.exit = (self.now, self.seq)
                    if still is None:
                        still = [x for x in self.open if not x.proc.triggered]
                    if self._digest is not None:
                        self._digest.update(('X%s:%d:%s|' % (
                            self.now, self.seq, r.name)).encode())
                    if self.hooks is not None:
                        self.hooks.on_exit(r)
            if still is not None:
                self.open = still
        if self.hooks is not None:
            self.hooks.after_event(rec)

    def digest(self):
        return self._digest.hexdigest() if self._digest is not None else ''

    # --------------------------------------------------------------------- F4
    def _descends(self, rec, root):
        n = 0
        while rec is not None and n < 4:
            if rec is root:
                return True
            rec = rec.parent
            n += 1
        return False

    def _permute(self, t):
        q = self._queue
        ent = sorted((e for e in q if e[0] == t and e[1] == NORMAL),
                     key=lambda e: e[2])
        if len(ent) < 2:
            return
        blocks = []          # (root Rec, [entries])
        order = []           # ('B', i) | ('E', entry)
        cur = None
        for e in ent:
            p = _proc_of(e[3])
            rec = self.by_proc.get(p) if p is not None else None
            nm = rec.name if rec is not None else '?'
            if nm == 'allocate_tasks':
                cur = (rec, [e])
                blocks.append(cur)
                order.append(('B', len(blocks) - 1))
            elif (cur is not None and rec is not None
                  and nm in ('allocate_task_to_cluster', 'do_work')
                  and self._descends(rec, cur[0])):
                cur[1].append(e)
            else:
                cur = None
                order.append(('E', e))
        if len(blocks) < 2:
            return
        key = str(int(t))
        if self.perm_explicit is not None:
            idx = self.perm_explicit.get(key)
            if idx is None or sorted(idx) != list(range(len(blocks))):
                return
            idx = list(idx)
        else:
            rng = random.Random('%s/%s' % (self.perm_seed, key))
            idx = list(range(len(blocks)))
            rng.shuffle(idx)
        if idx == sorted(idx):
            return
        self.perm_changed += 1
        self.perm_trace[key] = idx
        newseq = []
        bi = 0
        for kind, x in order:
            if kind == 'E':
                newseq.append(x)
            else:
                newseq.extend(blocks[idx[bi]][1])
                bi += 1
        eids = [e[2] for e in ent]
        rest = [e for e in q if not (e[0] == t and e[1] == NORMAL)]
        new = [(t, NORMAL, eid, e[3]) for eid, e in zip(eids, newseq)]
        q[:] = rest + new
        heapq.heapify(q)
        if self._digest is not None:
            self._digest.update(('P%s:%s|' % (key, idx)).encode())
