#!/venv/bin/python
"""Writes seeded/README.md: one row per confirmed seeded change (what, what it needs, which checks catch it)."""
import json, os
V = os.path.dirname(os.path.dirname(os.path.abspath(__file__)))
rows = []
mx = {}
mp = os.path.join(V, 'seeded', 'MATRIX.json')
if os.path.exists(mp):
    mx = json.load(open(mp)).get('rows', {})
for d in sorted(os.listdir(os.path.join(V, 'seeded'))):
    mf = os.path.join(V, 'seeded', d, 'meta.json')
    if not os.path.exists(mf): continue
    m = json.load(open(mf))
    own = m.get('checks', {}).get(m['property'], {})
    others = sorted(set([p for p, r in mx.get(d, {}).items() if isinstance(r, dict) and r.get('verdict') == 'X' and p != m['property']] +
                        [p for p, r in m.get('checks', {}).items() if p != m['property'] and r.get('verdict') == 'DETECTED']))
    th = m.get('checks_thorough', {}).get(m['property'])
    sig = '; '.join(sorted({s.split("'")[3] for s in own.get('signatures', []) if s.count("'") >= 4}))
    rows.append((d, m['property'], (m.get('summary') or '').replace('|', '/').replace('\n', ' ')[:230],
                 (m.get('needs') or '').replace('|', '/').replace('\n', ' ')[:200], own.get('verdict', '?') + (' (thorough: %s)' % th['verdict'] if th else ''), sig, ' '.join(others)))
with open(os.path.join(V, 'seeded', 'README.md'), 'w') as fp:
    fp.write('# Seeded changes (written by independent sub-agents from the property text only; each confirmed in a scratch worktree)\n\n')
    fp.write('`tools/seed_eval.py` confirmed for every entry: the 30 baseline tests still pass with the change, the demonstration fails with it and passes without it. '
             '"own check" is the verdict of the quick tier of the property the change was written against (seed 0), as re-evaluated with the final machinery on the final /repo; "also caught by" lists other checks recorded in the meta.json of the change and, for rounds 1-2, `seeded/MATRIX.json` (all checks against all changes at scale 0.3; not repeated for later rounds). A `(thorough: ...)` note gives the thorough-tier verdict where the quick tier missed for sampling reasons. Why each remaining miss is a miss is in DESIGN.md section 12.\n\n')
    fp.write('| id | property | change | needs | own check | violated clauses | also caught by |\n|---|---|---|---|---|---|---|\n')
    for r in rows:
        fp.write('| %s | %s | %s | %s | %s | %s | %s |\n' % r)
    det = sum(1 for r in rows if r[4].startswith('DETECTED'))
    fp.write('\n%d of %d detected by their own property\'s quick check.\n' % (det, len(rows)))
print(len(rows), 'rows;', sum(1 for r in rows if r[4].startswith('DETECTED')), 'detected')
for r in rows:
    if not r[4].startswith('DETECTED'): print('  not detected:', r[0], r[4], r[6])
