#!/venv/bin/python
"""Regenerates /verif/MANIFEST.json from the table below (single source of truth)."""
import json, os, sys
V = os.path.dirname(os.path.dirname(os.path.abspath(__file__)))
TECH = 'deterministic simulation with fault injection: seeded search over scenarios, schedules and fault plans on the real actor system under a harness-owned SimPy event loop'
L = {
 'C01': ('online invariant after every SimPy event (open executions per machine from the spawn/exit log) under adversarial scheduling algorithms (F2), block permutation of concurrent allocation processes (F4), injected delays (F1) and stalls (F3); plus direct illegal allocations on the real Cluster', '4/C01'),
 'C02': ('operation-sequence machine on the real Cluster checked against an executable reference model after every op and event (legal and illegal calls, F8), plus partition/counter invariants after every event of full simulations and the end-state clause at return, including runs whose (legal) user algorithm leaves the release of its reservation to the Scheduler (F9)', '4/C02'),
 'C03': ('history oracle over complete simulations: every DAG edge of the generated workflow is checked against recorded starts/finishes, allocation instants and machine bandwidths', '4/C03'),
 'C04': ('exactly-once ledger built from the process spawn log, quiescence predicate at return, task-table rows vs executions; shipped and adversarial algorithms; feasible runs that never complete (an observation never observed / a task never executed); sampled pause points', '4/C04'),
 'C05': ('bounded liveness: every feasible generated configuration must return from Simulation.start() before the analytic serial bound trips the event loop, without raising', '4/C05'),
 'C06': ('per-execution runtime oracle computed from the scenario physical values x unit factor; monotonicity on pairs of executions; injected and real delay models', '4/C06'),
 'C07': ('conservation ledger (deposits counted from ingest-stream resumes) compared with both tiers free space after every event; Buffer op-machine with rejected ingests', '4/C07'),
 'C08': ('beginning-of-timestep snapshots replayed through the telescope pass in plan order for every observation start; caps after every event; ingest hold times from the ledger; admission queries of the real Buffer at the edge of its free space in seeded op sequences (admitted => room in both tiers after space owed to ingests and moves in flight)', '4/C08'),
 'C09': ('online reservation invariants (pool of the target machine at each allocation, reservation count/size at creation, release) on batch-scheduling simulations, reservation membership never grows, release also when left to the Scheduler (F9); Cluster op-machine', '4/C09'),
 'C10': ('differential: each scenario twice in one process and in three fresh interpreters with different PYTHONHASHSEED (F6); tables, event logs and harness event digests must agree; between the two in-process runs the same configuration with another delay degree (abandoned part-way) and an unrelated scenario run in the same interpreter; failures that need earlier simulations of the interpreter are replayed as a chain', '4/C10'),
 'C11': ('fault enumeration over pause points: every k in 1..T-1 (up to 45 per scenario) plus seeded multi-segment splits against an uninterrupted reference: state snapshots at every step, per-step table, task table, event log; the clock run on past the end of the work; refused start/resume calls leave state unchanged', '4/C11'),
 'C12': ('each row of the real monitor table compared column by column with the harness beginning-of-timestep snapshot and ledger', '4/C12'),
 'C13': ('life-cycle transitions derived from snapshots/spawn log compared with monitor.events (count, time, causal order), also on paused runs', '4/C13'),
 'C14': ('plan read at hand-over to the scheduler inside simulated runs and compared with the generated DAG (ids, demands, edges, volumes, order, queries), earlier plans re-queried after every later plan, direct planner calls at equal and repeated clocks', '4/C14'),
 'C15': ('seeded sweep of the real DelayModel (all distributions/degrees/probabilities/runtimes incl. 0; same-process and fresh-process determinism, other models evaluated in between, the same object asked again, numpy integer seeds) and flag/status propagation in simulations with injected and real delays', '4/C15'),
 'C16': ('paired simulations of one physical configuration under unit k and under seconds: parsed initial state and trajectories (volumes, rate-limit outcome, task runtimes in seconds) must agree; Config.parse_* called directly, twice on one object', '4/C16'),
 'C17': ('every execution compared with the machine recorded when the static plan became visible; contention from ingest and concurrent workflows, delays, stalls, permutations', '4/C17'),
 'C18': ('Buffer op-machine following every step of every move against a two-tier reference model (both directions, either tier slower, no-room refusals, round trips); moves observed in full simulations', '4/C18'),
 'C19': ('all five idleness queries compared with ledger truth after every event of full simulations and after every op of the Cluster/Buffer op-machines, and at every event of paused and resumed runs', '4/C19'),
}
NOTE = {
 'C14': 'Caveat: the property is a function of (graph, name, clock); the simulator adds the real call path and clock values, no schedule dimension. ',
 'C16': 'Caveat: first sentence is a function of the configuration; simulation decides the "hence" sentence by paired trajectories. ',
 'C15': 'Caveat: the model half is a function of its arguments; the simulation ingredient is the randomness seam and the delayed runs. ',
}
checks = []
for pid in sorted(L):
    text, ref = L[pid]
    checks.append({
        'property_id': pid,
        'quick_cmd': './check %s --tier quick' % pid,
        'thorough_cmd': './check %s --tier thorough' % pid,
        'evidence_file': 'evidence/%s.json' % pid,
        'replay_cmd_template': './check %s --replay {path}' % pid,
        'engine': 'tsim',
        'level_claimed': {'category': 'fault_enumeration' if pid == 'C11' else 'exploration', 'text': text, 'design_ref': 'DESIGN.md §' + ref},
        'level_note': NOTE.get(pid, '') + 'Sampling, not proof. Trusted: SimPy, the harness ledger built from the env.process seam, the fake SHADOW planner (valid plans only), scenario generator bounds (mostly <=6 machines, <=5 observations, <=8 tasks per workflow; up to 12 machines, 7 observations, 18 (rarely 40) tasks in 4 % of quick and 25 % of thorough runs); observation names unique; observation durations whole timesteps.',
        'technique': TECH,
    })
m = {
 'version': 1,
 'setup_cmd': '/venv/bin/python -c "import simpy, pandas, networkx, numpy; print(\'ok\')"',
 'hooks': {'guard': 'TOPSIM_VERIF', 'enable': 'no source hook is needed: every seam (Simulation(env=...), scheduling=, task.delay, module attribute time) already exists; ./check sets TOPSIM_VERIF=1 for uniformity',
           'baseline_off_cmd': 'cd /repo && /venv/bin/python -m pytest -ra -q -p no:cacheprovider --timeout=900 --continue-on-collection-errors',
           'source_commits': [], 'add_only': True},
 'engines': [{'name': 'tsim', 'path': 'tsim/', 'serves_properties': sorted(L), 'kind_free_text': 'deterministic simulation with fault injection (harness-owned SimPy event loop, seeded scenario/fault generator, ledger oracles, op-sequence machines, shrinker, replay)'}],
 'checks': checks,
 'not_applicable': [],
 'notes': 'VERIF_SEED selects the runs; VERIF_BUDGET_S scales the thorough tier (default 300 s per property). Exit 2 + HARNESS-ERROR is a harness failure, never a verdict.',
}
json.dump(m, open(os.path.join(V, 'MANIFEST.json'), 'w'), indent=1)
print('wrote MANIFEST.json with', len(checks), 'checks')
