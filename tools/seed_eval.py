#!/venv/bin/python
"""tools/seed_eval.py <out_dir> <N> <seed-id> [--props C01,C02] [--scale S] [--tier quick|thorough] [--budget-s B]

Confirms a seeded change delivered by a sub-agent (patchN.diff / demoN.py / metaN.json in <out_dir>):
  1. applies it in a scratch worktree of /repo (outside /repo and /verif),
  2. the 30 baseline tests must still pass there,
  3. the demonstration must FAIL with the change and PASS on the unchanged tree,
  4. runs the named checks (default: the property in meta) against the scratch tree with TOPSIM_REPO/VERIF_OUT,
and stores patch.diff, demo.py, meta.json under /verif/seeded/<seed-id>/.  Nothing is ever applied to /repo.
"""
import argparse, json, os, shutil, subprocess, sys, tempfile, time
VERIF = os.path.dirname(os.path.dirname(os.path.abspath(__file__)))
REPO = '/repo'
ap = argparse.ArgumentParser()
ap.add_argument('out'); ap.add_argument('n'); ap.add_argument('sid')
ap.add_argument('--props'); ap.add_argument('--scale', default='1.0'); ap.add_argument('--tier', default='quick')
ap.add_argument('--budget-s'); ap.add_argument('--seed', default='0'); ap.add_argument('--no-store', action='store_true')
a = ap.parse_args()
patch = os.path.join(a.out, 'patch%s.diff' % a.n); demo = os.path.join(a.out, 'demo%s.py' % a.n); metaf = os.path.join(a.out, 'meta%s.json' % a.n)
if not os.path.exists(patch):
    patch = os.path.join(a.out, 'patch.diff'); demo = os.path.join(a.out, 'demo.py'); metaf = os.path.join(a.out, 'meta.json')
meta = json.load(open(metaf))
root = tempfile.mkdtemp(prefix='tsim-seed-')
src = os.path.join(root, 'repo')
clean_env = {k: v for k, v in os.environ.items() if k not in ('PYTHONPATH', 'TOPSIM_REPO', 'VERIF_OUT')}
rec = dict(meta)
try:
    subprocess.run(['git', '-C', REPO, 'worktree', 'add', '-q', '--detach', src, 'HEAD'], check=True)
    def rundemo():
        e = dict(clean_env); e['PYTHONPATH'] = src; e['TQDM_DISABLE'] = '1'
        text = open(demo).read()
        # demos written against the agent's own worktree path: point them at the scratch tree
        text = text.replace('/tmp/wt/standin', os.path.join(VERIF, 'tsim', 'fakes'))
        import re as _re
        text = _re.sub(r'/tmp/wt/(?!standin)[A-Za-z0-9]+', src, text)      # any agent worktree path
        os.makedirs(os.path.join(src, '_out'), exist_ok=True)      # same relative place as in the agent's worktree
        dp = os.path.join(src, '_out', 'demo.py'); open(dp, 'w').write(text)
        r = subprocess.run(['/venv/bin/python', dp], cwd=src, env=e, capture_output=True, text=True, timeout=900)
        return r.returncode, (r.stdout + r.stderr)[-300:]
    rc0, out0 = rundemo()
    ap_ = subprocess.run(['git', '-C', src, 'apply', patch], capture_output=True, text=True)
    if ap_.returncode != 0:
        print('PATCH DOES NOT APPLY', ap_.stderr); sys.exit(3)
    t = subprocess.run(['/venv/bin/python', '-m', 'pytest', '-q', '-p', 'no:cacheprovider', '--timeout=900', '--continue-on-collection-errors'],
                       cwd=src, env=clean_env, capture_output=True, text=True)
    tail = t.stdout.strip().split('\n')[-1]
    rc1, out1 = rundemo()
    rec['confirmed'] = dict(tests=tail, demo_unchanged_exit=rc0, demo_changed_exit=rc1, demo_changed_tail=out1.strip()[-200:])
    ok = '30 passed' in tail and rc0 == 0 and rc1 != 0
    print('confirm: tests=[%s] demo unchanged=%s changed=%s -> %s' % (tail, rc0, rc1, 'OK' if ok else 'REJECT'))
    if not ok:
        print(out0[-300:]); print(out1[-300:]); sys.exit(4)
    props = (a.props or meta['property']).split(',')
    if a.props is None and isinstance(meta.get('checks'), dict):
        props += [p_ for p_ in sorted(meta['checks']) if p_ not in props]
    rec['checks'] = {}
    for p in props:
        e = dict(clean_env); e['TOPSIM_REPO'] = src; e['VERIF_OUT'] = os.path.join(root, 'out')
        cmd = [os.path.join(VERIF, 'check'), p, '--tier', a.tier, '--scale', a.scale, '--seed', a.seed]
        if a.budget_s: cmd += ['--budget-s', a.budget_s]
        t0 = time.time()
        r = subprocess.run(cmd, env=e, capture_output=True, text=True, timeout=7200)
        lines = [l for l in r.stdout.split('\n') if l.startswith('VIOLATION') or 'signature=' in l or 'HARNESS' in l or 'KNOWN' in l]
        verdict = {0: 'missed', 1: 'DETECTED', 2: 'harness-error'}.get(r.returncode, str(r.returncode))
        rec['checks'][p] = dict(cmd=' '.join(cmd[1:]), verdict=verdict, wall_s=round(time.time() - t0, 1),
                                signatures=[l.strip() for l in lines if 'signature=' in l][:4])
        print('%s %s %s %.0fs %s' % (a.sid, p, verdict, time.time() - t0, [l.strip()[:160] for l in lines if 'signature=' in l][:3]))
        if r.returncode == 2: print(r.stdout[-1500:])
    if not a.no_store:
        dst = os.path.join(VERIF, 'seeded', a.sid); os.makedirs(dst, exist_ok=True)
        if os.path.abspath(patch) != os.path.abspath(os.path.join(dst, 'patch.diff')):
            shutil.copy(patch, os.path.join(dst, 'patch.diff'))
            open(os.path.join(dst, 'demo.py'), 'w').write(open(demo).read().replace('/tmp/wt/standin', os.path.join(VERIF, 'tsim', 'fakes')))
        old = {}
        if os.path.exists(os.path.join(dst, 'meta.json')):
            old = json.load(open(os.path.join(dst, 'meta.json')))
        ch = old.get('checks', {}); ch.update(rec['checks']); rec['checks'] = ch
        rec['breaks_property'] = meta['property']; rec['base_commit'] = subprocess.run(['git', '-C', REPO, 'rev-parse', '--short', 'HEAD'], capture_output=True, text=True).stdout.strip()
        json.dump(rec, open(os.path.join(dst, 'meta.json'), 'w'), indent=1)
finally:
    subprocess.run(['git', '-C', REPO, 'worktree', 'remove', '--force', src], capture_output=True)
    shutil.rmtree(root, ignore_errors=True)
