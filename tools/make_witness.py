#!/venv/bin/python
"""tools/make_witness.py <profile> <seed> <prop> <clause> <site-regex> <out.json>: minimise one generated scenario into a witness replay file."""
import sys, os, re, json, concurrent.futures as cf, multiprocessing as mp
sys.path.insert(0, os.path.dirname(os.path.dirname(os.path.abspath(__file__))))
from tsim import runner, cases, scenario as S
prof, seed, prop, clause, sre, out = sys.argv[1:7]
case = {'kind': 'sim', 'sc': S.gen(seed, prof)}
o = runner.exec_one(case)
sig = None
for v in o['violations']:
    if v['prop'] == prop and v['clause'] == clause and re.fullmatch(sre, v['site']):
        sig = runner.sig_of(v); msg = v['msg']
assert sig, [runner.sig_of(v) for v in o['violations']]
with cf.ProcessPoolExecutor(8, mp_context=mp.get_context('fork')) as pool:
    small, runs = runner.shrink(pool, case, sig)
o = runner.exec_one(small)
msg = [v['msg'] for v in o['violations'] if runner.sig_of(v) == sig][0]
json.dump({'property': prop, 'signature': list(sig), 'message': msg, 'case': small, 'hashseed': '0', 'shrink_runs': runs}, open(out, 'w'), indent=1, sort_keys=True)
print(out, runs, msg)
