#!/venv/bin/python
"""tools/seed_matrix.py [--scale S] [--props C01,..] [--only S-C01-1,..]: run every property check against every seeded
change (each in its own scratch worktree outside /repo and /verif) and write seeded/MATRIX.json + a markdown table."""
import argparse, concurrent.futures as cf, json, os, shutil, subprocess, sys, tempfile, time
VERIF = os.path.dirname(os.path.dirname(os.path.abspath(__file__)))
ap = argparse.ArgumentParser(); ap.add_argument('--scale', default='0.3'); ap.add_argument('--props'); ap.add_argument('--only'); ap.add_argument('--par', type=int, default=4)
a = ap.parse_args()
PROPS = a.props.split(',') if a.props else ['C%02d' % i for i in range(1, 20)]
seeds = sorted(d for d in os.listdir(os.path.join(VERIF, 'seeded')) if os.path.isdir(os.path.join(VERIF, 'seeded', d)))
if a.only: seeds = [s for s in seeds if s in a.only.split(',')]
clean_env = {k: v for k, v in os.environ.items() if k not in ('PYTHONPATH', 'TOPSIM_REPO', 'VERIF_OUT')}
def one(sid):
    root = tempfile.mkdtemp(prefix='tsim-mx-'); src = os.path.join(root, 'repo'); row = {}
    try:
        subprocess.run(['git', '-C', '/repo', 'worktree', 'add', '-q', '--detach', src, 'HEAD'], check=True)
        r = subprocess.run(['git', '-C', src, 'apply', os.path.join(VERIF, 'seeded', sid, 'patch.diff')], capture_output=True, text=True)
        if r.returncode: return sid, {'error': 'patch does not apply: ' + r.stderr[-200:]}
        for p in PROPS:
            e = dict(clean_env); e['TOPSIM_REPO'] = src; e['VERIF_OUT'] = os.path.join(root, 'out')
            t0 = time.time()
            r = subprocess.run([os.path.join(VERIF, 'check'), p, '--scale', a.scale, '--workers', '4'], env=e, capture_output=True, text=True, timeout=7200)
            sigs = [l.strip().split(' runs=')[0].replace('signature=', '') for l in r.stdout.split('\n') if 'signature=' in l]
            row[p] = {'verdict': {0: '.', 1: 'X', 2: 'H'}.get(r.returncode, '?'), 'sigs': sigs[:3], 's': round(time.time() - t0)}
        return sid, row
    finally:
        subprocess.run(['git', '-C', '/repo', 'worktree', 'remove', '--force', src], capture_output=True); shutil.rmtree(root, ignore_errors=True)
out = {}
mp = os.path.join(VERIF, 'seeded', 'MATRIX.json')
if os.path.exists(mp) and a.only: out = json.load(open(mp)).get('rows', {})
with cf.ThreadPoolExecutor(a.par) as ex:
    for sid, row in ex.map(one, seeds):
        out[sid] = row; print(sid, ' '.join('%s%s' % (p[1:], row[p]['verdict']) for p in PROPS if p in row) if 'error' not in row else row); sys.stdout.flush()
        json.dump({'scale': a.scale, 'legend': 'X = check reported a VIOLATION, . = quiet, H = harness error', 'rows': out}, open(mp, 'w'), indent=1)
